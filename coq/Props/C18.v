(* Property C18 - Candidate graph = all detections plus all near pairs in consecutive frames.
   This file holds only the property theorems (each closed by [exact] of a lemma of
   Proofs/CandGraphProofs.v), non-vacuity examples, and Print Assumptions.

   Oracles (never axioms): scipy's KDTree.query_ball_tree is the universally quantified
   boolean [near] on node ids (C18_edges, C18_edges_seg) or the exact integer test
   dist2 <= d2max (C18_edges_points); skimage's centroid is symbolic, its area is the
   pixel count.  Scales are integer multipliers applied elementwise ([zipmul]).
   No axioms are used. *)
From Coq Require Import ZArith List Bool.
From FT Require Import Model.CandGraph Proofs.CandGraphProofs.
From FT Require Model.PyRt5 Gen.CandGraph_gen Proofs.CandGraphTie.
Import ListNotations.
Open Scope Z_scope.

(* ---- (1) edges --------------------------------------------------------------------- *)
(* add_cand_edges on any graph (any node list; node ids need not even be distinct), the
   frame dict being computed from the graph (node_frame_dict=None) or passed as computed:
   (u,v) is an edge iff u and v are nodes, v lies in the frame immediately following u's,
   and they are near.  No hypothesis on which frames are inhabited: empty frames and gaps
   are covered. *)
Theorem C18_edges : forall (near : Z -> Z -> bool) (g : graph) (u v : Z),
  (In (u, v) (add_cand_edges near g []) <->
   exists nu nv, In nu g /\ In nv g /\ n_id nu = u /\ n_id nv = v /\
                 n_time nv = n_time nu + 1 /\ near u v = true) /\
  (In (u, v) (add_cand_edges near g (compute_nfd g)) <-> In (u, v) (add_cand_edges near g [])).
Proof. exact cand_edges_full. Qed.

(* Corollary: with distinct node ids, an edge never spans a gap and a near pair in
   consecutive frames is always linked, whatever frames are missing before it. *)
Theorem C18_edges_gap : forall (near : Z -> Z -> bool) g u v nu nv,
  NoDup (map n_id g) -> In nu g -> In nv g -> n_id nu = u -> n_id nv = v ->
  (In (u, v) (add_cand_edges near g (compute_nfd g)) -> n_time nv = n_time nu + 1) /\
  (n_time nv = n_time nu + 1 -> near u v = true -> In (u, v) (add_cand_edges near g (compute_nfd g))).
Proof. exact cand_edges_gap. Qed.

(* the point-list pipeline, with the exact distance test on the stored (scaled) positions *)
Theorem C18_edges_points : forall d2max sc pts g e,
  compute_graph_from_points_list d2max sc pts = Some (g, e) ->
  forall u v, In (u, v) e <->
    exists nu nv, In nu g /\ In nv g /\ n_id nu = u /\ n_id nv = v /\
                  n_time nv = n_time nu + 1 /\ dist2 (n_pos nu) (n_pos nv) <= d2max.
Proof. exact points_graph_edges. Qed.

(* the segmentation pipeline (near = oracle on label pairs) *)
Theorem C18_edges_seg : forall near iou fs g e ious,
  compute_graph_from_seg near iou fs = Some (g, e, ious) ->
  forall u v, In (u, v) e <->
    exists nu nv, In nu g /\ In nv g /\ n_id nu = u /\ n_id nv = v /\
                  n_time nv = n_time nu + 1 /\ near u v = true.
Proof. exact seg_graph_edges. Qed.

(* ---- (2) nodes from a point list --------------------------------------------------- *)
(* one node per point, in order: id = index, time = first coordinate, pos = the rest, both
   multiplied elementwise by the scale when one is given; the returned frame dict is the
   one computed from the graph.  A scale of the wrong length is the only failure. *)
Theorem C18_nodes_points : forall sc pts g d,
  nodes_from_points_list sc pts = Some (g, d) ->
  length g = length pts /\
  NoDup (map n_id g) /\
  d = compute_nfd g /\
  (sc = None -> forall k t pos, nth_error pts k = Some (t :: pos) ->
     nth_error g k = Some {| n_id := Z.of_nat k; n_time := t; n_pos := pos; n_area := 0 |}) /\
  (forall s, sc = Some s -> forall k t pos, nth_error pts k = Some (t :: pos) ->
     exists st ss, s = st :: ss /\ length pos = length ss /\
     nth_error g k = Some {| n_id := Z.of_nat k; n_time := t * st; n_pos := zipmul pos ss; n_area := 0 |}).
Proof. exact nodes_from_points_full. Qed.

Theorem C18_nodes_points_error : forall sc pts,
  nodes_from_points_list sc pts = None <->
  exists s p, sc = Some s /\ In p pts /\ length p <> length s.
Proof. exact nodes_from_points_error. Qed.

Theorem C18_zipmul_elementwise : forall p s, length p = length s ->
  length (zipmul p s) = length p /\ forall j, nth j (zipmul p s) 0 = nth j p 0 * nth j s 0.
Proof. exact zipmul_nth. Qed.

(* ---- (3) nodes from a segmentation ------------------------------------------------- *)
(* the call succeeds iff no positive label occurs in two frames (otherwise ValueError) ... *)
Theorem C18_nodes_seg_ok : forall fs,
  nodes_from_segmentation fs <> None <->
  (forall k1 k2 f1 f2 l, nth_error fs k1 = Some f1 -> nth_error fs k2 = Some f2 ->
     0 < l -> In l f1 -> In l f2 -> k1 = k2).
Proof. exact nodes_from_seg_ok. Qed.

(* ... and then the nodes are exactly the (frame k, positive label l present in frame k)
   pairs, with id l, time k, area = pixel count; no id twice (hence no node twice); the
   returned frame dict lists id u under t iff a node has id u and time t. *)
Theorem C18_nodes_seg : forall fs g d,
  nodes_from_segmentation fs = Some (g, d) ->
  (forall n, In n g <->
     exists k f l, nth_error fs k = Some f /\ 0 < l /\ In l f /\
                   n = {| n_id := l; n_time := Z.of_nat k; n_pos := []; n_area := count l f |}) /\
  NoDup (map n_id g) /\
  (forall t u, (exists ids, nfd_get t d = Some ids /\ In u ids) <->
               exists n, In n g /\ n_id n = u /\ n_time n = t).
Proof. exact nodes_from_seg_spec. Qed.

(* ---- (4) IoU ------------------------------------------------------------------------ *)
(* [inter l1 l2 f1 f2] = number of positions p with f1[p] = l1 and f2[p] = l2;
   [count l f] = number of positions of l in f;
   [iou_value] = (inter, count l1 f1 + count l2 f2 - inter), or (0, 1) when inter = 0. *)
Theorem C18_iou_frames : forall f1 f2 l1 l2,
  length f1 = length f2 -> l1 <> 0 -> l2 <> 0 ->
  iou_get l1 l2 (compute_ious f1 f2) = iou_value l1 l2 f1 f2 /\
  (inter l1 l2 f1 f2 = 0 <-> forall x, ~ In ((l1, l2), x) (compute_ious f1 f2)).
Proof. exact iou_two_frames. Qed.

Theorem C18_iou_entries : forall f1 f2 l1 l2 x,
  In ((l1, l2), x) (compute_ious f1 f2) <->
  l1 <> 0 /\ l2 <> 0 /\ 0 < inter l1 l2 f1 f2 /\
  x = (inter l1 l2 f1 f2, count l1 f1 + count l2 f2 - inter l1 l2 f1 f2).
Proof. exact compute_ious_spec. Qed.

(* pipeline with iou=True: every edge (u,v) joins label u of some frame k and label v of
   frame k+1 and carries exactly one iou value, the true overlap of these two masks. *)
Theorem C18_iou : forall near fs g e ious,
  (forall f f', In f fs -> In f' fs -> length f = length f') ->
  compute_graph_from_seg near true fs = Some (g, e, ious) ->
  forall u v, In (u, v) e ->
    exists k f1 f2, nth_error fs k = Some f1 /\ nth_error fs (S k) = Some f2 /\
      0 < u /\ 0 < v /\ In u f1 /\ In v f2 /\
      forall x, In ((u, v), x) ious <-> x = iou_value u v f1 f2.
Proof. exact seg_graph_iou. Qed.

(* ---- examples (non-vacuity) --------------------------------------------------------- *)
(* points at t = 0,1,3,4 at one place (finding F-18a): edges only 0->1 and 3->4 *)
(* ---- the candidate-graph functions are, for all arguments, the code translated on every run from the current
        candidate_graph/utils.py, iou.py and compute_graph.py (Gen/CandGraph_gen.v; translator
        harness/translate_candgraph.py, fail closed; combinators Model/PyRt5.v).  scipy's KDTree is
        uninterpreted; the only thing assumed of query_ball_tree is its specification: for trees built from ps
        and qs it returns, for each p in order, the ascending indices of the q within the ball (an arbitrary
        boolean relation [close r]).  [Ok]: the Python raises nothing on these inputs. ---- *)
Theorem C18_points_graph_is_generated :
  forall (Dist KDTree : Type) (scipy_KDTree : list (list Z) -> KDTree)
         (kd_query_ball_tree : KDTree -> KDTree -> Dist -> list (list Z))
         (close : Dist -> list Z -> list Z -> bool),
  (forall ps qs r, kd_query_ball_tree (scipy_KDTree ps) (scipy_KDTree qs) r =
                   map (fun p => FT.Proofs.CandGraphTie.ball_indices Dist close r p qs) ps) ->
  forall pts r sc,
  FT.Gen.CandGraph_gen.gen_compute_graph_from_points_list Dist KDTree scipy_KDTree kd_query_ball_tree pts r sc =
  match nodes_from_points_list sc pts with
  | Some (g, d) => FT.Model.PyRt5.Ok (FT.Proofs.CandGraphTie.add_edges (FT.Proofs.CandGraphTie.cg_of g)
                      (add_cand_edges (FT.Proofs.CandGraphTie.near_of Dist close r g) g d))
  | None => FT.Model.PyRt5.Raise FT.Model.PyRt5.AssertionError
  end.
Proof. exact FT.Proofs.CandGraphTie.gen_compute_graph_from_points_list_eq. Qed.

Theorem C18_add_iou_is_generated : forall g fs od,
  FT.Gen.CandGraph_gen.gen_add_iou g fs od =
  FT.Model.PyRt5.Ok (tt, FT.Proofs.CandGraphTie.add_ious g
     (add_iou (FT.Model.PyRt5.cg_edges g) fs
        match od with Some d => d | None => compute_nfd (FT.Model.PyRt5.cg_nodes g) end)).
Proof. exact FT.Proofs.CandGraphTie.gen_add_iou_eq. Qed.

Example C18_gap_example :
  compute_graph_from_points_list 25 None [[0;0;0]; [1;0;0]; [3;0;0]; [4;0;0]] =
  Some ([ {| n_id := 0; n_time := 0; n_pos := [0;0]; n_area := 0 |};
          {| n_id := 1; n_time := 1; n_pos := [0;0]; n_area := 0 |};
          {| n_id := 2; n_time := 3; n_pos := [0;0]; n_area := 0 |};
          {| n_id := 3; n_time := 4; n_pos := [0;0]; n_area := 0 |} ],
        [(0, 1); (2, 3)]).
Proof. vm_compute. reflexivity. Qed.

(* unordered points, boundary distance 3-4-5 with d2max = 25 resp. 24, a scale *)
Example C18_boundary_example :
  option_map snd (compute_graph_from_points_list 25 None [[2;0;0]; [0;0;0]; [1;3;4]; [1;0;6]]) = Some [(1, 2); (2, 0)] /\
  option_map snd (compute_graph_from_points_list 24 None [[2;0;0]; [0;0;0]; [1;3;4]; [1;0;6]]) = Some [] /\
  option_map snd (compute_graph_from_points_list 25 (Some [1;1;2]) [[0;0;0]; [1;3;2]; [1;3;3]]) = Some [(0, 1)] /\
  compute_graph_from_points_list 25 (Some [1;1]) [[0;0;0]] = None.
Proof. vm_compute. repeat split. Qed.

(* a label array with an empty frame: 4 frames of 2x2; label 5 in frame 0, 3 and 6 in frame 1,
   nothing in frame 2, 7 in frame 3; all pairs near: edges only 5->3, 5->6; the IoU of (5,3)
   is 1/3 (masks {0,1} and {1,2}), of (5,6) 0/1 *)
Example C18_seg_example :
  compute_graph_from_seg (fun _ _ => true) true [[5;5;0;0]; [0;3;3;6]; [0;0;0;0]; [0;7;0;0]] =
  Some ([ {| n_id := 5; n_time := 0; n_pos := []; n_area := 2 |};
          {| n_id := 3; n_time := 1; n_pos := []; n_area := 2 |};
          {| n_id := 6; n_time := 1; n_pos := []; n_area := 1 |};
          {| n_id := 7; n_time := 3; n_pos := []; n_area := 1 |} ],
        [(5, 3); (5, 6)],
        [((5, 3), (1, 3)); ((5, 6), (0, 1))]) /\
  iou_value 5 3 [5;5;0;0] [0;3;3;6] = (1, 3) /\
  nodes_from_segmentation [[5;0]; [0;0]; [0;5]] = None.
Proof. vm_compute. repeat split. Qed.

Print Assumptions C18_edges.
Print Assumptions C18_edges_gap.
Print Assumptions C18_edges_points.
Print Assumptions C18_edges_seg.
Print Assumptions C18_nodes_points.
Print Assumptions C18_nodes_points_error.
Print Assumptions C18_zipmul_elementwise.
Print Assumptions C18_nodes_seg_ok.
Print Assumptions C18_nodes_seg.
Print Assumptions C18_iou_frames.
Print Assumptions C18_iou_entries.
Print Assumptions C18_iou.
Print Assumptions C18_points_graph_is_generated.
Print Assumptions C18_add_iou_is_generated.
