(* Property C05 - Lineage ids label exactly the connected components.
   "In a tracking solution with lineage ids - after construction and after every accepted user
    action, undo or redo - two nodes carry the same lineage id if and only if they are connected
    (ignoring edge direction).  An edit leaves the lineage id of every node unchanged whose
    connected component contains neither a node the edit names nor a node of the track it names."

   This file holds only the property theorems (each closed by [exact] of a lemma of
   Proofs/EditGlobal.v / Proofs/EditLin.v), a non-vacuity example, and Print Assumptions.

   Reading guide (Proofs/EditInv.v, EditWalk.v, EditGlobal.v, EditLin.v):
   - [lin st n]: the integer lineage id stored on node n;  [edge st u v]: the graph has the edge u -> v;
   - [wconn st]: reflexive-symmetric-transitive closure of [edge st] (connected ignoring direction);
     [reach st a b]: reflexive-transitive closure (b is a itself or a descendant of a);
   - [W_lin st]: the local form of the property - L1 the id is constant along every edge, L2 two
     distinct roots (nodes without parent) carry distinct ids;
   - [LWF st]: the invariant bundle the argument needs: [cfg_ok] (track and lineage features active),
     [W_dict] (well-formed dictionaries, every node carries integer time / track id / lineage id),
     [W_forest] (C03: forward in time, in-degree <= 1, out-degree <= 2), [W_lin], and [W_book]
     (C06: the lookups and the recorded maxima agree with the graph - this is what makes
     [next_lin st] an id no node carries);
   - [uae_refused st u v force = None]: none of the checks of UserAddEdge refuses (Proofs/EditUserEdge.v).
   The theorems are about accepted calls ([... = Ok a st']) of the public entry points, top level or
   nested ([top]).  Not covered by a Coq theorem here: UserAddNode / UserDeleteNode /
   UserUpdateSegmentation (they pick neighbours through the track lookup, which needs the track
   invariant C04), undo / redo, and construction. *)
From Coq Require Import ZArith List Bool Relations.
From FT Require Import Base.Dict Model.Edit Model.EditExec Proofs.EditInv Proofs.EditWalk Proofs.EditUserEdge
  Proofs.EditGlobal Proofs.EditLin Proofs.EditLinExample.
From FT Require Proofs.EditNodeBasic Proofs.EditBook Proofs.EditUDN Proofs.EditUAN Proofs.EditWFEdge.
From FT Require Gen.History_gen Proofs.HistoryGen Props.C02.
From FT Require Proofs.EditBook Proofs.EditWFNode.
From FT Require Proofs.EditSessions Proofs.EditSessionsFull Proofs.EditSessionsAll Proofs.EditWFPaint Proofs.EditWFPaintRollback.
From FT Require Gen.UserActions_gen Proofs.UserActionsTie.
From FT Require Model.Toggle Proofs.EditInit.
From FT Require Proofs.CoreTieBundle.
From FT Require Model.EditCtor Proofs.EditCtor.
From FT Require Proofs.EditCtorDict.
Import ListNotations.
Open Scope Z_scope.

(* ---- local form => global statement ---- *)
(* On a forward-in-time forest, L1 + L2 say exactly: same lineage id iff weakly connected. *)
Theorem C05_global : forall st, W_dict st -> W_forest st -> W_lin st ->
  forall n m, is_node st n -> is_node st m -> (lin st n = lin st m <-> wconn st n m).
Proof. exact lineage_global. Qed.

(* ---- UpdateTrackIDs: which lineage ids it writes ---- *)
Theorem C05_update_track_ids : forall st start newT newL b st',
  W_dict st -> trk_act (ft st) = true -> lin_act (ft st) = true -> is_node st start ->
  do_upd_track st start newT newL = Ok b st' ->
  match newL with
  | Some l => (forall m, reach st start m -> lin st' m = Some l) /\
              (forall m, ~ reach st start m -> lin st' m = lin st m)
  | None => forall m, lin st' m = lin st m
  end.
Proof. exact do_upd_track_lin. Qed.

(* ---- the two relabelling patterns keep the local form (pure graph statements) ---- *)
(* cut: the edge (u,v) disappears and everything below v gets an id l that no node carried *)
Theorem C05_cut : forall st st' u v l,
  W_dict st -> W_forest st -> W_lin st -> edge st u v ->
  (forall n, is_node st' n <-> is_node st n) ->
  (forall x y, edge st' x y <-> edge st x y /\ ~ (x = u /\ y = v)) ->
  (forall n, is_node st n -> lin st n <> Some l) ->
  (forall m, reach st v m -> lin st' m = Some l) ->
  (forall m, ~ reach st v m -> lin st' m = lin st m) ->
  W_lin st'.
Proof. exact cut_W_lin. Qed.

(* graft: the root v becomes a child of the earlier node u and everything below v gets the id of u *)
Theorem C05_graft : forall st st' u v,
  W_dict st -> W_forest st -> W_lin st ->
  time_of st u < time_of st v -> (forall p, ~ edge st p v) ->
  (forall n, is_node st' n <-> is_node st n) ->
  (forall x y, edge st' x y <-> edge st x y \/ (x = u /\ y = v)) ->
  (forall m, reach st v m -> lin st' m = lin st u) ->
  (forall m, ~ reach st v m -> lin st' m = lin st m) ->
  W_lin st'.
Proof. exact graft_W_lin. Qed.

(* ---- UserDeleteEdge ---- *)
(* An accepted UserDeleteEdge(u,v) removes exactly that edge, keeps the invariant bundle, gives every
   node below v the id next_lin st (carried by no node of st) and leaves every other id alone. *)
Theorem C05_delete_edge_ids : forall st u v top a st',
  LWF st -> user_delete_edge st u v top = Ok a st' ->
  edge st u v /\ LWF st' /\ (forall n, is_node st' n <-> is_node st n) /\
  (forall x y, edge st' x y <-> edge st x y /\ ~ (x = u /\ y = v)) /\
  (forall m, reach st v m -> lin st' m = Some (next_lin st)) /\
  (forall m, ~ reach st v m -> lin st' m = lin st m).
Proof. exact user_delete_edge_lin. Qed.

Theorem C05_step_delete_edge : forall st u v top a st',
  LWF st -> user_delete_edge st u v top = Ok a st' ->
  LWF st' /\ forall n m, is_node st' n -> is_node st' m -> (lin st' n = lin st' m <-> wconn st' n m).
Proof. exact delete_edge_step. Qed.

Theorem C05_frame_delete_edge : forall st u v top a st',
  LWF st -> user_delete_edge st u v top = Ok a st' ->
  forall m, ~ wconn st m u -> ~ wconn st m v -> lin st' m = lin st m.
Proof. exact delete_edge_frame. Qed.

(* ---- UserAddEdge (plain, division, and forced with removal of the old parent edge) ---- *)
(* An accepted UserAddEdge(u,v) leaves the expected edge set, keeps the invariant bundle, gives every
   node below v the id of u and leaves every other id alone. *)
Theorem C05_add_edge_ids : forall st u v force top a st',
  LWF st -> user_add_edge st u v force top = Ok a st' ->
  uae_refused st u v force = None /\ LWF st' /\ (forall n, is_node st' n <-> is_node st n) /\
  (forall x y, edge st' x y <-> (edge st x y /\ y <> v) \/ (x = u /\ y = v)) /\
  (forall m, reach st v m -> lin st' m = lin st u) /\
  (forall m, ~ reach st v m -> lin st' m = lin st m).
Proof. exact user_add_edge_lin. Qed.

(* ... and every call that passes the checks is accepted *)
Theorem C05_add_edge_accepted : forall st u v force,
  LWF st -> uae_refused st u v force = None ->
  exists a st', user_add_edge_core st u v force = Ok a st' /\ LWF st' /\ gstep st st' /\
    (forall x y, edge st' x y <-> (edge st x y /\ y <> v) \/ (x = u /\ y = v)) /\
    (forall m, reach st v m -> lin st' m = lin st u) /\
    (forall m, ~ reach st v m -> lin st' m = lin st m).
Proof. exact uae_core_lin. Qed.

Theorem C05_step_add_edge : forall st u v force top a st',
  LWF st -> user_add_edge st u v force top = Ok a st' ->
  LWF st' /\ forall n m, is_node st' n -> is_node st' m -> (lin st' n = lin st' m <-> wconn st' n m).
Proof. exact add_edge_step. Qed.

Theorem C05_frame_add_edge : forall st u v force top a st',
  LWF st -> user_add_edge st u v force top = Ok a st' ->
  forall m, ~ wconn st m u -> ~ wconn st m v -> lin st' m = lin st m.
Proof. exact add_edge_frame. Qed.

(* ---- UserSwapPredecessors (two nested UserDeleteEdge, then two nested UserAddEdge) ---- *)
Theorem C05_step_swap : forall st n1 n2 a st',
  LWF st -> user_swap st n1 n2 = Ok a st' ->
  LWF st' /\ forall n m, is_node st' n -> is_node st' m -> (lin st' n = lin st' m <-> wconn st' n m).
Proof. exact swap_step. Qed.

(* only nodes below n1 or n2 can change their id; new edges only lead into n1 or n2 *)
Theorem C05_swap_ids : forall st n1 n2 a st',
  LWF st -> user_swap st n1 n2 = Ok a st' ->
  LWF st' /\ (forall n, is_node st' n <-> is_node st n) /\
  (forall x y, edge st' x y -> edge st x y \/ (y = n1 \/ y = n2)) /\
  (forall m, (forall d, d = n1 \/ d = n2 -> ~ reach st d m) -> lin st' m = lin st m).
Proof. exact user_swap_lin. Qed.

Theorem C05_frame_swap : forall st n1 n2 a st',
  LWF st -> user_swap st n1 n2 = Ok a st' ->
  forall m, ~ wconn st m n1 -> ~ wconn st m n2 -> lin st' m = lin st m.
Proof. exact swap_frame. Qed.

(* ---- non-vacuity: division 1 -> 2, 1 -> 3 and continuation 2 -> 4, one lineage (id 1) ---- *)
(* ---- node actions: the six graph-and-id invariants (configuration, dictionaries, forest, track ids,
        lineage ids, lookups) are preserved together by UserDeleteNode and UserAddNode, all branches
        (dividing parent, root, bridge; splice into a skip edge, forced cuts, fresh track id) ---- *)
Theorem C05_step_delete_node : forall st n pxo top a st',
  EditUDN.GWF st -> user_delete_node st n pxo top = Ok a st' -> EditUDN.GWF st'.
Proof. exact EditUDN.udn_GWF. Qed.

(* what a node deletion may relabel: lineage ids only strictly below the deleted node, track ids only
   when the parent of the deleted node divides (the sibling then continues the parent's track) *)
Theorem C05_frame_delete_node : forall st n pxo top a st',
  EditUDN.GWF st -> user_delete_node st n pxo top = Ok a st' ->
  (forall m, m <> n -> ~ EditWalk.reach st n m -> lin st' m = lin st m) /\
  ((forall q, edge st q n -> ~ divides st q) -> forall m, m <> n -> trk st' m = trk st m).
Proof. exact EditUDN.udn_id_frame. Qed.

(* UserAddNode, for attributes inside the documented domain (integer time / track id, no
   caller-supplied lineage id) *)
Theorem C05_step_add_node : forall st n a px force top act st',
  cfg_ok st -> W_dict st -> W_forest st -> W_trk st -> W_lin st -> W_book st ->
  EditBook.rp_disjoint st -> EditUAN.attrs_ok a -> haskey KLin a = false ->
  user_add_node st n a px force top = Ok act st' ->
  cfg_ok st' /\ W_dict st' /\ W_forest st' /\ W_trk st' /\ W_lin st' /\ W_book st'.
Proof. exact EditUAN.user_add_node_keeps_all. Qed.

(* every state reachable by edge-level calls from a well-formed state is well formed (WF includes W_trk) *)
Theorem C05_run_edge_calls : forall ops st,
  forallb EditWFEdge.edge_fragment ops = true -> WF st -> WF (run st ops).
Proof. exact EditWFEdge.run_edge_WF. Qed.

(* ---- undo / redo: the history mechanism this property quantifies over (Tracks.undo / redo,
        ActionHistory) is, in the model, the code translated on every run from the current
        actions/action_history.py (Gen/History_gen.v); C02_timeline states what it guarantees ---- *)
Theorem C05_history_is_generated : forall st a dA,
  (let h := fst (FT.Gen.History_gen.add_new_action state action (FT.Proofs.HistoryGen.to_hist st) a st) in
   undo_stack (hist_add st a) = FT.Gen.History_gen.undo_stack _ _ h /\ redo_stack (hist_add st a) = FT.Gen.History_gen.redo_stack _ _ h) /\
  (let gr := FT.Gen.History_gen.undo state action FT.Proofs.HistoryGen.inv_total dA (FT.Proofs.HistoryGen.to_hist st) in
   match undo st with
   | Ok b s' => snd gr = b /\ undo_stack s' = FT.Gen.History_gen.undo_stack _ _ (fst gr) /\ redo_stack s' = FT.Gen.History_gen.redo_stack _ _ (fst gr)
   | Err _ _ => True
   end).
Proof. exact FT.Props.C02.C02_edit_machine_uses_generated. Qed.

(* ---- the same with the node calls: every state reachable from a well-formed state by any sequence, of
        any length, of UserAddNode / UserDeleteNode / edge-level calls (accepted or refused) satisfies the
        complete invariant WF, provided each UserAddNode respects its documented preconditions at the moment
        it is made (op_pre: integer time / track id, no caller-supplied lineage id, and - with a
        segmentation - a non-zero id and pixels of the node's own frame that are background; the three
        accepted-but-invariant-breaking calls of Proofs/EditWFNodeExample.v show each part is needed) ---- *)
Theorem C05_run_node_calls : forall ops st,
  forallb EditWFNode.node_fragment ops = true -> WF st -> EditBook.rp_disjoint st ->
  (forall pre o post, ops = pre ++ o :: post -> EditWFNode.op_pre (run st pre) o) ->
  WF (run st ops).
Proof. exact EditWFNode.run_node_WF. Qed.

(* ---- sessions over the WHOLE public interface (Proofs/EditSessions.v, EditSessionsFull.v, EditSessionsAll.v):
        from a well-formed state with an empty history, EVERY state reached along ANY sequence - of any
        length - of calls of the edit machine (add / delete edge, forced or not, swap, add / delete node,
        attribute update, paint / erase stroke, undo, redo, queries, fresh ids), accepted or refused,
        satisfies the complete invariant WF.  No restriction on which calls occur.  Hypotheses: three
        configuration facts that no call changes (reg_ok: every active managed feature is registered;
        rp_decl: every active regionprops key is one the annotator declares; rp_disjoint: time / track id /
        lineage id are not regionprops keys - all true by construction of Tracks, C10_registry) and the
        documented per-call preconditions at the moment each call is made (pre_along_all: for UserAddNode
        integer time / track id, no caller-supplied lineage id, and with a segmentation a non-zero id and
        background pixels of its own frame; without a segmentation a deleted / added node has its
        position attributes; strokes, edge calls, attribute updates, undo, redo have none). ---- *)
Theorem C05_sessions : forall st0 ops,
  WF st0 -> EditSessions.reg_ok st0 -> EditBook.rp_disjoint st0 -> EditSessionsFull.rp_decl st0 ->
  undo_stack st0 = [] -> redo_stack st0 = [] -> EditSessionsAll.pre_along_all st0 ops ->
  forall pre post, ops = pre ++ post -> WF (run st0 pre).
Proof. exact EditSessionsAll.session_all_reachable_WF. Qed.

(* ---- paint / erase strokes (Proofs/EditWFPaint.v): every ACCEPTED stroke on a well-formed state yields
        a well-formed state, with no precondition on the stroke (labels and nodes stay one-to-one: nodes that
        lose all pixels are deleted, with the bridge edge; partially overwritten ones are re-measured; the
        painted label exists with exactly its pixels), and reachability over edge / node / stroke calls.
        Refused strokes included, the rolled-back one too (Proofs/EditWFPaintRollback.v): the only per-call
        precondition left is that of UserAddNode; strokes have none. ---- *)
Theorem C05_paint : forall st nv t idx T force a st',
  WF st -> EditBook.rp_disjoint st -> paint st nv t idx T force = Ok a st' -> WF st'.
Proof. exact EditWFPaint.paint_WF. Qed.

Theorem C05_run_paint_calls : forall ops st,
  forallb EditWFPaint.paint_fragment ops = true -> WF st -> EditBook.rp_disjoint st -> EditSessions.reg_ok st ->
  (forall pre o post, ops = pre ++ o :: post -> EditWFNode.op_pre (run st pre) o) ->
  WF (run st ops) /\ EditBook.rp_disjoint (run st ops) /\ EditSessions.reg_ok (run st ops).
Proof. exact EditWFPaintRollback.run_paint_WF_all. Qed.

(* ---- the seven composite user actions this property quantifies over are, in the model, the code
        translated on every run from the current user_actions/*.py (Gen/UserActions_gen.v, translator
        harness/translate_user_actions.py, fail closed): the generated definitions equal the hand-written
        ones the theorems above are about, for all arguments (UserAddNode: on states whose track lookup
        lists only nodes, which W_book implies). ---- *)
Theorem C05_user_actions_are_generated :
  (forall st u v top, FT.Gen.UserActions_gen.gen_user_delete_edge st u v top = user_delete_edge st u v top) /\
  (forall st u v force top, FT.Gen.UserActions_gen.gen_user_add_edge st u v force top = user_add_edge st u v force top) /\
  (forall st n1 n2, FT.Gen.UserActions_gen.gen_user_swap st n1 n2 = user_swap st n1 n2) /\
  (forall st n new, FT.Gen.UserActions_gen.gen_user_update_attrs st n new = user_update_attrs st n new) /\
  (forall st n px top, FT.Gen.UserActions_gen.gen_user_delete_node st n px top = user_delete_node st n px top) /\
  (forall st n a px force top, W_book st ->
     FT.Gen.UserActions_gen.gen_user_add_node st n a px force top = user_add_node st n a px force top) /\
  (forall st nv groups T force, FT.Gen.UserActions_gen.gen_user_update_seg st nv groups T force = user_update_seg st nv groups T force).
Proof.
  split; [exact FT.Proofs.UserActionsTie.gen_user_delete_edge_eq|]. split; [exact FT.Proofs.UserActionsTie.gen_user_add_edge_eq|].
  split; [exact FT.Proofs.UserActionsTie.gen_user_swap_eq|]. split; [exact FT.Proofs.UserActionsTie.gen_user_update_attrs_eq|].
  split; [exact FT.Proofs.UserActionsTie.gen_user_delete_node_eq|].
  split; [intros st n a px force top WB; exact (FT.Proofs.UserActionsTie.gen_user_add_node_eq st n a px force top (FT.Proofs.UserActionsTie.W_book_book_nodes st WB))|].
  exact FT.Proofs.UserActionsTie.gen_user_update_seg_eq.
Qed.

(* ---- ... and the start state need not be assumed well formed: for every valid RAW solution (a forward-in-time
        binary forest whose nodes carry only a time - and, without a segmentation, a position -, labels and
        nodes one-to-one, the feature table of a fresh Tracks, and the networkx oracle answers being the true
        unbranched segments / weakly connected components: raw_ok), the state constructed by enabling the core
        features with recomputation (Proofs/EditInit.v: construct, following Tracks.__init__ /
        _setup_core_computed_features) is well formed, satisfies the configuration facts and has an empty
        history; hence every session over the whole interface from it stays well formed. ---- *)
Theorem C05_sessions_from_construction : forall r0 posk ctrk clin extra ops,
  EditInit.raw_ok r0 posk ctrk clin ->
  (forall k, In k extra -> In k (Toggle.available r0)) ->
  EditSessionsAll.pre_along_all (EditInit.construct r0 ctrk clin extra) ops ->
  forall pre post, ops = pre ++ post -> WF (run (EditInit.construct r0 ctrk clin extra) pre).
Proof. exact EditInit.construct_session_WF. Qed.

(* ---- one level further down: the queries (get_track_neighbors with its in-place sort, has_track_id_at_time,
        next track / lineage id), the node-id counter, Tracks.undo / redo and the seven basic actions with their
        inverses (__init__, _apply, the annotator notifications, the track-annotator bookkeeping and relabel
        walk inlined) of the model equal the code translated on every run from data_model/solution_tracks.py,
        data_model/tracks.py, annotators/_track_annotator.py and actions/*.py (Gen/Core_gen.v; translator
        harness/translate_core.py, fail closed).  The statement is Proofs/CoreTieBundle.v: core_tie_statement.
        Not translated (hand models): the regionprops / edge annotators' update, the bulk compute paths. ---- *)
Theorem C05_core_is_generated : FT.Proofs.CoreTieBundle.core_tie_statement.
Proof. exact FT.Proofs.CoreTieBundle.core_tie. Qed.

(* ---- ... and for a graph that ARRIVES with managed features of its own (an imported or reloaded solution):
        the constructor as the code runs it (Model/EditCtor.v: construct_any, following Tracks.__init__,
        _check_existing_feature, _setup_core_computed_features and TrackAnnotator.__init__ /
        _get_max_id_and_map) fills the id lookups by a scan of whatever ids the nodes carry, then ACTIVATES
        every core feature the first node carries (values taken at face value) and COMPUTES every other one.
        If the features detected on the first node are valid on all nodes (supplied_ok: supplied track ids label
        exactly the unbranched segments, supplied lineage ids exactly the components, supplied positions /
        areas are those of the current masks; nothing is assumed about a feature the first node lacks), the
        constructed state is well formed - whatever combination of supplied and computed features - and so
        is every state of every session over the whole interface from it. Proofs/EditCtorExample.v: a
        solution with non-contiguous supplied track ids and a stale partial lineage id (accepted), and one
        whose supplied ids are invalid (raw_ok holds, supplied_ok fails, the constructed state is NOT well
        formed: the hypothesis is needed).  Tie: the constructor correspondence of every run compares
        construct_any with SolutionTracks.__init__ on every generated raw solution (harness/ctor.py). ---- *)
Theorem C05_sessions_from_any_construction : forall r0 posk ctrk clin extra ops,
  EditInit.raw_ok r0 posk ctrk clin ->
  EditCtor.supplied_ok r0 ->
  (forall k, In k extra -> In k (Toggle.available r0)) ->
  EditSessionsAll.pre_along_all (FT.Model.EditCtor.construct_any r0 ctrk clin extra) ops ->
  forall pre post, ops = pre ++ post -> WF (run (FT.Model.EditCtor.construct_any r0 ctrk clin extra) pre).
Proof. exact EditCtor.construct_any_session_WF. Qed.

(* ---- ... and for tracks constructed with a PREPARED feature registry (features=<FeatureDict>: load_tracks of the
        internal save format, applications that build their own registry): Model/EditCtor.v construct_dict,
        following Tracks._activate_features_from_dict after TrackAnnotator.__init__ - the lookups are filled by the
        scan, every registered key an annotator can manage is activated, NOTHING is computed. If everything the
        registry lists is valid on the graph (EditCtorDict.dict_ok: time, track and lineage ids registered; track
        ids label the unbranched segments, lineage ids the components; every registered regionprops key stores
        the value of the node's current mask, a registered IoU the true overlap; the caller's table is otherwise
        arbitrary), the constructed state is well formed and so is every state of every session over the whole
        interface from it.  Proofs/EditCtorDictExample.v: a reloaded solution with a division, non-contiguous
        ids, positions, areas and IoUs (accepted; the first lineage id issued afterwards lies above the loaded
        maximum), and one with a stale registered area (dict_ok fails and the constructed state is NOT fresh).
        Tie: the constructor correspondence compares construct_dict with SolutionTracks(..., features=...)
        on 15 % of the generated raw solutions (harness/ctor.py, driver line CD). ---- *)
Theorem C05_sessions_from_prepared_registry : forall r0 ops,
  EditCtorDict.dict_ok r0 ->
  EditSessionsAll.pre_along_all (FT.Model.EditCtor.construct_dict r0) ops ->
  forall pre post, ops = pre ++ post -> WF (run (FT.Model.EditCtor.construct_dict r0) pre).
Proof. exact EditCtorDict.construct_dict_session_WF. Qed.

Example C05_example_invariants : LWF ex5.
Proof. exact ex5_LWF. Qed.

(* deleting the division edge 1 -> 2: nodes 2 and 4 get the fresh lineage 2, nodes 1 and 3 keep 1;
   adding it back (1 has one child again: the division branch) gives 2 and 4 the id of 1 again *)
Example C05_example_delete_edge :
  let s1 := fst (step ex5 (ODelEdge 1 2)) in
  fst (snd (step ex5 (ODelEdge 1 2))) = 0 /\
  map (lin s1) [1; 2; 3; 4] = [Some 1; Some 2; Some 1; Some 2] /\
  all_edges s1 = [(1, 3); (2, 4)] /\ next_lin s1 = 3 /\
  lin_book (bk s1) = [(1, [1; 3]); (2, [2; 4])] /\
  let s2 := fst (step s1 (OAddEdge 1 2 false)) in
  fst (snd (step s1 (OAddEdge 1 2 false))) = 0 /\
  map (lin s2) [1; 2; 3; 4] = [Some 1; Some 1; Some 1; Some 1] /\
  all_edges s2 = [(1, 3); (1, 2); (2, 4)] /\
  lin_book (bk s2) = [(1, [1; 3; 2; 4])].
Proof. vm_compute. repeat split; reflexivity. Qed.

Print Assumptions C05_global.
Print Assumptions C05_update_track_ids.
Print Assumptions C05_cut.
Print Assumptions C05_graft.
Print Assumptions C05_delete_edge_ids.
Print Assumptions C05_step_delete_edge.
Print Assumptions C05_frame_delete_edge.
Print Assumptions C05_add_edge_ids.
Print Assumptions C05_add_edge_accepted.
Print Assumptions C05_step_add_edge.
Print Assumptions C05_frame_add_edge.
Print Assumptions C05_step_swap.
Print Assumptions C05_swap_ids.
Print Assumptions C05_frame_swap.
Print Assumptions C05_step_delete_node.
Print Assumptions C05_frame_delete_node.
Print Assumptions C05_step_add_node.
Print Assumptions C05_run_edge_calls.
Print Assumptions C05_history_is_generated.
Print Assumptions C05_run_node_calls.
Print Assumptions C05_sessions.
Print Assumptions C05_paint.
Print Assumptions C05_run_paint_calls.
Print Assumptions C05_user_actions_are_generated.
Print Assumptions C05_sessions_from_construction.
Print Assumptions C05_core_is_generated.
Print Assumptions C05_sessions_from_any_construction.
Print Assumptions C05_sessions_from_prepared_registry.
