(* Property C17 - Inferred column mappings lose no column and prefer exact names.
   This file holds only the property theorems (each closed by [exact] of a lemma of
   Proofs/NameMapProofs.v), replay/non-vacuity examples, and Print Assumptions.

   Oracles: [lower] (str.lower) is an arbitrary function; [closest]
   (difflib.get_close_matches(.., n=1, cutoff=0.4)) is any function whose answer is one
   of the candidates it is given ([closest_sound]) - nothing else is assumed about which
   names are "similar".  No hypothesis on the feature dict is needed (not even distinct
   feature keys), none on the required list (it may repeat keys or contain seg_id). *)
From Coq Require Import ZArith List Bool Permutation.
From FT Require Import Base.Dict Model.NameMap Proofs.NameMapProofs.
From FT Require Model.PyRt2 Gen.NameMapping_gen Proofs.NameMapTie.
Import ListNotations.
Open Scope Z_scope.

(* The inferred node name map uses every source column exactly once - as the value of a
   standard/feature key, as an element of a multi-column value, or mapped to itself as a
   custom property: the columns occurring in the values of the map ([used]: Single c
   contributes c, Multi l contributes l), in order, are a permutation of the source
   columns; and the keys of the map are pairwise distinct. *)
Theorem C17_partition : forall lower closest, closest_sound closest ->
  forall cols required feats, NoDup cols ->
  let m := infer_node_name_map lower closest cols required feats in
  Permutation (used m) cols /\ NoDup (keys m).
Proof. exact infer_node_partition. Qed.

(* The same for the inferred edge name map. *)
Theorem C17_partition_edge : forall lower closest, closest_sound closest ->
  forall cols feats, NoDup cols ->
  let m := infer_edge_name_map lower closest cols feats in
  Permutation (used m) cols /\ NoDup (keys m).
Proof. exact infer_edge_partition. Qed.

(* what the permutation means: no column is lost, none is assigned to two keys (or twice
   to one) *)
Theorem C17_none_lost_none_twice : forall (m : mapping) cols, NoDup cols -> Permutation (used m) cols ->
  (forall c, In c cols <-> In c (used m)) /\ NoDup (used m).
Proof. exact partition_consequences. Qed.

(* A column spelled exactly like a required key or like the seg-id key is mapped to that key. *)
Theorem C17_exact : forall lower closest, closest_sound closest ->
  forall cols required feats k, NoDup cols ->
  In k cols -> (In k required \/ k = SEG_ID) ->
  lookup k (infer_node_name_map lower closest cols required feats) = Some (Single k).
Proof. exact infer_node_exact. Qed.

(* Edge maps: a column spelled exactly like an edge feature key is mapped to that key. *)
Theorem C17_exact_edge : forall lower closest, closest_sound closest ->
  forall cols feats k, NoDup cols ->
  In k cols -> In k (map f_key (filter (fun f => f_type f =? EDGE) feats)) ->
  lookup k (infer_edge_name_map lower closest cols feats) = Some (Single k).
Proof. exact infer_edge_exact. Qed.

(* Under the oracle's contract the model never takes its two totalisation branches
   (where Python would raise KeyError), so the model is the code on every sound oracle. *)
Theorem C17_model_total_branches_unreachable : forall lower closest, closest_sound closest ->
  (forall q pl c, closest q (keys (lower_map lower pl)) = Some c -> lookup c (lower_map lower pl) <> None) /\
  (forall q d2k c, closest q (keys (lower_display_map lower d2k)) = Some c ->
                   lookup c (lower_display_map lower d2k) <> None).
Proof. exact (fun lower closest H => conj (fuzzy_lookup_reachable lower closest H) (fuzzy_display_lookup_reachable lower closest H)). Qed.

(* ---------- replays of the two former loss cases (finding F-17a) through the model ----------
   codes: 0=seg_id 1=time 2=area_1 3=area_2 4=y 5=x 6=id 7=parent_id 8=pos 9=z 10=position 11=area
   12=Volume 13=ellipse_axis_radii 14=major_axis 15=semi_minor_axis 16=minor_axis
   17="Ellipsoid axis radii" 18=circularity 19=Sphericity 20=perimeter 21="Surface Area" 22=iou 23=IoU
   24=tracklet_id 25="Tracklet ID" 26=lineage_id 27="Lineage ID" 28=volume 29=sphericity
   30="surface area" 31="tracklet id" 32="lineage id" 33="ellipsoid axis radii" 34=t
   (the real 3D feature dict; lower table and difflib answers recorded from the implementation
   run of harness/witnesses.py w_F17a_fuzzy / w_F17a_custom_pos) *)
Definition ex_feats : list feature :=
  [{| f_key := 8; f_type := 0; f_num := 3; f_vnames := [9;4;5]; f_disp := Some 10 |};
   {| f_key := 11; f_type := 0; f_num := 1; f_vnames := []; f_disp := Some 12 |};
   {| f_key := 13; f_type := 0; f_num := 3; f_vnames := [14;15;16]; f_disp := Some 17 |};
   {| f_key := 18; f_type := 0; f_num := 1; f_vnames := []; f_disp := Some 19 |};
   {| f_key := 20; f_type := 0; f_num := 1; f_vnames := []; f_disp := Some 21 |};
   {| f_key := 22; f_type := 1; f_num := 1; f_vnames := []; f_disp := Some 23 |};
   {| f_key := 24; f_type := 0; f_num := 1; f_vnames := []; f_disp := Some 25 |};
   {| f_key := 26; f_type := 0; f_num := 1; f_vnames := []; f_disp := Some 27 |}].
Definition ex_lower : dict Z := [(12,28);(17,33);(19,29);(21,30);(23,22);(25,31);(27,32)].
Definition ex_disp : list Z := [9;4;5;28;14;15;16;29;30;31;32].

(* columns time, area_1, area_2, y, x, id, parent_id: area_1 and area_2 both fuzzy-match
   "Surface Area"; the second one used to be dropped, now it stays a custom column *)
Definition ex1_cols : list Z := [1;2;3;4;5;6;7].
Definition ex1_closest : list (Z * list Z * option Z) :=
  [(0, [2;3;4;5;6;7], Some 7);      (* "seg_id" ~ parent_id *)
   (2, ex_disp, Some 30);           (* area_1 ~ "surface area" *)
   (3, ex_disp, Some 30);           (* area_2 ~ "surface area": perimeter already assigned *)
   (6, ex_disp, None)].
(* ---- the functions these theorems are about are, for all arguments, the code translated on every run from
        the current import_export/_name_mapping.py (Gen/NameMapping_gen.v; translator harness/translate_pure.py
        + translate_name_mapping.py, fail closed).  [Ok]: the Python raises nothing on these inputs.
        closest_sound: difflib answers with one of its candidates (the hypothesis of the theorems above);
        NoDup of the feature keys: a Python dict has distinct keys. ---- *)
Theorem C17_infer_node_is_generated : forall lower closest,
  closest_sound closest -> forall cols required feats, NoDup (map f_key feats) ->
  FT.Gen.NameMapping_gen.gen_infer_node_name_map lower closest cols required (FT.Proofs.NameMapTie.fd feats) =
  FT.Model.PyRt2.Ok (infer_node_name_map lower closest cols required feats).
Proof. exact FT.Proofs.NameMapTie.gen_infer_node_name_map_eq. Qed.

Theorem C17_infer_edge_is_generated : forall lower closest,
  closest_sound closest -> forall cols feats, NoDup (map f_key feats) ->
  FT.Gen.NameMapping_gen.gen_infer_edge_name_map lower closest cols (Some (FT.Proofs.NameMapTie.fd feats)) =
  FT.Model.PyRt2.Ok (infer_edge_name_map lower closest cols feats).
Proof. exact FT.Proofs.NameMapTie.gen_infer_edge_name_map_eq. Qed.

Example C17_replay_fuzzy :
  NoDup ex1_cols /\ closest_sound (tbl_closest ex1_closest) /\
  infer_node_name_map (tbl_lower ex_lower) (tbl_closest ex1_closest) ex1_cols [1] ex_feats
  = [(1, Single 1); (0, Single 7); (8, Multi [4;5]); (20, Single 2); (3, Single 3); (6, Single 6)].
Proof.
  split; [repeat (constructor; [cbn; intuition congruence|]); constructor|].
  split; [apply tbl_closest_sound; vm_compute; reflexivity|vm_compute; reflexivity].
Qed.

(* columns t, y, x, pos, id, parent_id: the column "pos" takes the key pos (exact feature
   key), so y and x cannot join it; they used to be dropped, now they stay custom columns *)
Definition ex2_cols : list Z := [34;4;5;8;6;7].
Definition ex2_closest : list (Z * list Z * option Z) :=
  [(1, [34;4;5;8;6;7], Some 34);    (* "time" ~ t *)
   (0, [4;5;8;6;7], Some 7);
   (4, ex_disp, Some 4);            (* y ~ "y" -> (pos, 1): pos already assigned *)
   (5, ex_disp, Some 5);
   (6, ex_disp, None)].
Example C17_replay_custom_pos :
  NoDup ex2_cols /\ closest_sound (tbl_closest ex2_closest) /\
  infer_node_name_map (tbl_lower ex_lower) (tbl_closest ex2_closest) ex2_cols [1] ex_feats
  = [(1, Single 34); (0, Single 7); (8, Single 8); (4, Single 4); (5, Single 5); (6, Single 6)].
Proof.
  split; [repeat (constructor; [cbn; intuition congruence|]); constructor|].
  split; [apply tbl_closest_sound; vm_compute; reflexivity|vm_compute; reflexivity].
Qed.

(* an edge map: the column iou takes the edge feature key iou; area_1 and area_2 find no
   match (empty oracle table = no fuzzy match) and stay custom columns *)
Example C17_replay_edge :
  infer_edge_name_map (tbl_lower ex_lower) (tbl_closest []) [22; 2; 3] ex_feats
  = [(22, Single 22); (2, Single 2); (3, Single 3)].
Proof. vm_compute. reflexivity. Qed.

Print Assumptions C17_partition.
Print Assumptions C17_partition_edge.
Print Assumptions C17_none_lost_none_twice.
Print Assumptions C17_exact.
Print Assumptions C17_exact_edge.
Print Assumptions C17_model_total_branches_unreachable.
Print Assumptions C17_infer_node_is_generated.
Print Assumptions C17_infer_edge_is_generated.
