(* Property C09 - Edge IoU always equals the true overlap of the endpoint masks, each taken in its
   own time frame.
   This file holds only the property theorems (each closed by [exact] of a lemma of
   Proofs/EditFresh.v), non-vacuity examples on a concrete state, and Print Assumptions.

   Vocabulary (Model/Edit.v, Proofs/EditInv.v, Proofs/EditSeg.v, Proofs/EditFresh.v):
     VIou i u              the exact rational i / u  (VIou 0 1 is the stored 0)
     iou_of st sg u v      what EdgeAnnotator computes for edge (u, v): from the mask of u in u's time
                           frame and the mask of v in v's time frame - frames need not be adjacent
     iou_fresh st          if the IoU feature is active, every edge (u, v) of the graph stores
                           iou_of st sg u v for the current array sg     (second half of W_fresh)
     nodes_sane st sg      nodes are non-zero and live in existing frames (part of W_seg)
     edges_sane st         edge endpoints are nodes (part of W_dict)
     only_touches sg t idx n   the in-range pixels idx of frame t carry background or label n
     hits sg t idx         idx contains an in-range pixel of frame t
     paint_arr sg t idx v  the array after seg[t][idx] = v *)
From Coq Require Import ZArith List Bool.
From FT Require Import Base.Dict Model.Edit Model.EditExec Proofs.EditInv Proofs.EditSeg Proofs.EditFresh Proofs.EditSegExample.
From FT Require Proofs.EditWFEdge.
From FT Require Gen.History_gen Proofs.HistoryGen Props.C02.
From FT Require Proofs.EditBook Proofs.EditWFNode.
From FT Require Proofs.EditSessions Proofs.EditSessionsFull Proofs.EditSessionsAll Proofs.EditWFPaint Proofs.EditWFPaintRollback.
From FT Require Gen.UserActions_gen Proofs.UserActionsTie.
From FT Require Model.Toggle Proofs.EditInit.
From FT Require Proofs.CoreTieBundle.
From FT Require Proofs.AnnotatorsTie.
From FT Require Model.EditCtor Proofs.EditCtor.
From FT Require Proofs.EditCtorDict.
From FT Require Proofs.EditSessionsToggle.
Import ListNotations.
Open Scope Z_scope.

(* what iou_of is: with A, B the two masks (duplicate-free index sets of the same flat pixel space),
   I = A n B and U = A u B, the value is |I| / |U|, and 0 when they do not meet (also when a mask is
   empty); |U| + |I| = |A| + |B| *)
Theorem C09_iou_of_spec : forall st sg u v,
  let A := mask_of sg (time_of st u) u in
  let B := mask_of sg (time_of st v) v in
  exists I U : list Z,
    NoDup I /\ NoDup U /\
    (forall p, In p I <-> In p A /\ In p B) /\
    (forall p, In p U <-> In p A \/ In p B) /\
    (length U + length I = length A + length B)%nat /\
    iou_of st sg u v = if (length I =? 0)%nat then VIou 0 1 else VIou (Z.of_nat (length I)) (Z.of_nat (length U)).
Proof. exact iou_of_spec. Qed.

(* AddEdge: the new edge stores the IoU of its endpoint masks (a caller-supplied value is overwritten),
   all other edges keep theirs *)
Theorem C09_fresh_add_edge : forall st u v a b st',
  do_add_edge st u v a = Ok b st' -> iou_fresh st -> iou_fresh st'.
Proof. exact iou_fresh_add_edge. Qed.

Theorem C09_add_edge_value : forall st u v a b st' sg,
  do_add_edge st u v a = Ok b st' -> seg st = Some sg -> iou_act (ft st) = true ->
  edge st' u v /\ lookup KIou (edge_attrs st' u v) = Some (iou_of st' sg u v) /\ seg st' = Some sg.
Proof. exact add_edge_iou. Qed.

(* UpdateNodeSeg: the IoU of every edge into or out of the repainted node is recomputed from the new
   array; the masks of all other nodes are untouched, so all other edges stay right *)
Theorem C09_fresh_upd_seg : forall st n t idx added b st' sg,
  do_upd_seg st n (t, idx) added = Ok b st' -> seg st = Some sg ->
  is_node st n -> ~ In KTime (rp_act (ft st)) -> nodes_sane st sg ->
  (forall i, (i < length (frame_of sg t))%nat -> In (Z.of_nat i) idx ->
     label_at sg t i = n \/ (added = true /\ label_at sg t i = 0)) ->
  mask_of (paint_arr sg t idx (if added then n else 0)) (time_of st n) n <> [] ->
  edges_sane st -> iou_fresh st -> iou_fresh st'.
Proof. exact iou_fresh_upd_seg. Qed.

(* AddNode with pixels: no edge is created, the masks of the existing nodes are untouched *)
Theorem C09_fresh_add_node : forall st n a t idx b st' sg,
  do_add_node st n a (Some (t, idx)) = Ok b st' -> seg st = Some sg ->
  ~ is_node st n -> n <> 0 -> NoDup (keys a) -> lookup KTime a = Some (VZ t) -> ~ In KTime (rp_act (ft st)) ->
  hits sg t idx -> nodes_sane st sg -> only_touches sg t idx n -> edges_sane st ->
  iou_fresh st -> iou_fresh st'.
Proof. exact iou_fresh_add_node. Qed.

(* the other basic actions: DeleteEdge, UpdateNodeAttrs, UpdateTrackIDs, DeleteNode (the edges of the
   removed node disappear with it; no isolation hypothesis is needed) *)
Theorem C09_fresh_other : forall st,
  (forall u v b st', do_del_edge st u v = Ok b st' -> iou_fresh st -> iou_fresh st') /\
  (forall n new b st', do_upd_attrs st n new = Ok b st' -> incl (rp_act (ft st)) (rp_all (ft st)) -> iou_fresh st -> iou_fresh st') /\
  (forall s T L b st', do_upd_track st s T L = Ok b st' -> ~ In KTrack (rp_act (ft st)) -> ~ In KLin (rp_act (ft st)) ->
     iou_fresh st -> iou_fresh st') /\
  (forall n b st', do_del_node st n None = Ok b st' -> W_seg st -> edges_sane st -> iou_fresh st -> iou_fresh st') /\
  (forall n t idx b st' sg, do_del_node st n (Some (t, idx)) = Ok b st' -> seg st = Some sg ->
     nodes_sane st sg -> only_touches sg t idx n -> edges_sane st -> iou_fresh st -> iou_fresh st').
Proof. exact iou_fresh_other. Qed.

(* ---------- non-vacuity ---------- *)
(* ex0 (Proofs/EditSegExample.v): frames  1 1 / 0 0 ,  2 2 / 3 0 ,  0 4 / 4 0 ; edges 1-2 (IoU 2/2),
   1-3 (0), 2-4 (1/3) *)
(* ---- every state reachable by edge-level calls (add / delete edge with and without force, swap,
        queries, fresh ids) from a well-formed state is well formed: WF includes W_seg (labels and
        nodes in one-to-one correspondence) and W_fresh (every active regionprops feature is the value
        of the current mask, every IoU the overlap of the current masks).  Induction over the call
        list, no bound on its length. ---- *)
Theorem C09_run_edge_calls : forall ops st,
  forallb EditWFEdge.edge_fragment ops = true -> WF st -> WF (run st ops).
Proof. exact EditWFEdge.run_edge_WF. Qed.

(* ---- undo / redo: the history mechanism this property quantifies over (Tracks.undo / redo,
        ActionHistory) is, in the model, the code translated on every run from the current
        actions/action_history.py (Gen/History_gen.v); C02_timeline states what it guarantees ---- *)
Theorem C09_history_is_generated : forall st a dA,
  (let h := fst (FT.Gen.History_gen.add_new_action state action (FT.Proofs.HistoryGen.to_hist st) a st) in
   undo_stack (hist_add st a) = FT.Gen.History_gen.undo_stack _ _ h /\ redo_stack (hist_add st a) = FT.Gen.History_gen.redo_stack _ _ h) /\
  (let gr := FT.Gen.History_gen.undo state action FT.Proofs.HistoryGen.inv_total dA (FT.Proofs.HistoryGen.to_hist st) in
   match undo st with
   | Ok b s' => snd gr = b /\ undo_stack s' = FT.Gen.History_gen.undo_stack _ _ (fst gr) /\ redo_stack s' = FT.Gen.History_gen.redo_stack _ _ (fst gr)
   | Err _ _ => True
   end).
Proof. exact FT.Props.C02.C02_edit_machine_uses_generated. Qed.

(* ---- the same with the node calls: every state reachable from a well-formed state by any sequence, of
        any length, of UserAddNode / UserDeleteNode / edge-level calls (accepted or refused) satisfies the
        complete invariant WF, provided each UserAddNode respects its documented preconditions at the moment
        it is made (op_pre: integer time / track id, no caller-supplied lineage id, and - with a
        segmentation - a non-zero id and pixels of the node's own frame that are background; the three
        accepted-but-invariant-breaking calls of Proofs/EditWFNodeExample.v show each part is needed) ---- *)
Theorem C09_run_node_calls : forall ops st,
  forallb EditWFNode.node_fragment ops = true -> WF st -> EditBook.rp_disjoint st ->
  (forall pre o post, ops = pre ++ o :: post -> EditWFNode.op_pre (run st pre) o) ->
  WF (run st ops).
Proof. exact EditWFNode.run_node_WF. Qed.

(* ---- sessions over the WHOLE public interface (Proofs/EditSessions.v, EditSessionsFull.v, EditSessionsAll.v):
        from a well-formed state with an empty history, EVERY state reached along ANY sequence - of any
        length - of calls of the edit machine (add / delete edge, forced or not, swap, add / delete node,
        attribute update, paint / erase stroke, undo, redo, queries, fresh ids), accepted or refused,
        satisfies the complete invariant WF.  No restriction on which calls occur.  Hypotheses: three
        configuration facts that no call changes (reg_ok: every active managed feature is registered;
        rp_decl: every active regionprops key is one the annotator declares; rp_disjoint: time / track id /
        lineage id are not regionprops keys - all true by construction of Tracks, C10_registry) and the
        documented per-call preconditions at the moment each call is made (pre_along_all: for UserAddNode
        integer time / track id, no caller-supplied lineage id, and with a segmentation a non-zero id and
        background pixels of its own frame; without a segmentation a deleted / added node has its
        position attributes; strokes, edge calls, attribute updates, undo, redo have none). ---- *)
Theorem C09_sessions : forall st0 ops,
  WF st0 -> EditSessions.reg_ok st0 -> EditBook.rp_disjoint st0 -> EditSessionsFull.rp_decl st0 ->
  undo_stack st0 = [] -> redo_stack st0 = [] -> EditSessionsAll.pre_along_all st0 ops ->
  forall pre post, ops = pre ++ post -> WF (run st0 pre).
Proof. exact EditSessionsAll.session_all_reachable_WF. Qed.

(* ---- paint / erase strokes (Proofs/EditWFPaint.v): every ACCEPTED stroke on a well-formed state yields
        a well-formed state, with no precondition on the stroke (labels and nodes stay one-to-one: nodes that
        lose all pixels are deleted, with the bridge edge; partially overwritten ones are re-measured; the
        painted label exists with exactly its pixels), and reachability over edge / node / stroke calls.
        Refused strokes included, the rolled-back one too (Proofs/EditWFPaintRollback.v): the only per-call
        precondition left is that of UserAddNode; strokes have none. ---- *)
Theorem C09_paint : forall st nv t idx T force a st',
  WF st -> EditBook.rp_disjoint st -> paint st nv t idx T force = Ok a st' -> WF st'.
Proof. exact EditWFPaint.paint_WF. Qed.

Theorem C09_run_paint_calls : forall ops st,
  forallb EditWFPaint.paint_fragment ops = true -> WF st -> EditBook.rp_disjoint st -> EditSessions.reg_ok st ->
  (forall pre o post, ops = pre ++ o :: post -> EditWFNode.op_pre (run st pre) o) ->
  WF (run st ops) /\ EditBook.rp_disjoint (run st ops) /\ EditSessions.reg_ok (run st ops).
Proof. exact EditWFPaintRollback.run_paint_WF_all. Qed.

(* ---- the seven composite user actions this property quantifies over are, in the model, the code
        translated on every run from the current user_actions/*.py (Gen/UserActions_gen.v, translator
        harness/translate_user_actions.py, fail closed): the generated definitions equal the hand-written
        ones the theorems above are about, for all arguments (UserAddNode: on states whose track lookup
        lists only nodes, which W_book implies). ---- *)
Theorem C09_user_actions_are_generated :
  (forall st u v top, FT.Gen.UserActions_gen.gen_user_delete_edge st u v top = user_delete_edge st u v top) /\
  (forall st u v force top, FT.Gen.UserActions_gen.gen_user_add_edge st u v force top = user_add_edge st u v force top) /\
  (forall st n1 n2, FT.Gen.UserActions_gen.gen_user_swap st n1 n2 = user_swap st n1 n2) /\
  (forall st n new, FT.Gen.UserActions_gen.gen_user_update_attrs st n new = user_update_attrs st n new) /\
  (forall st n px top, FT.Gen.UserActions_gen.gen_user_delete_node st n px top = user_delete_node st n px top) /\
  (forall st n a px force top, W_book st ->
     FT.Gen.UserActions_gen.gen_user_add_node st n a px force top = user_add_node st n a px force top) /\
  (forall st nv groups T force, FT.Gen.UserActions_gen.gen_user_update_seg st nv groups T force = user_update_seg st nv groups T force).
Proof.
  split; [exact FT.Proofs.UserActionsTie.gen_user_delete_edge_eq|]. split; [exact FT.Proofs.UserActionsTie.gen_user_add_edge_eq|].
  split; [exact FT.Proofs.UserActionsTie.gen_user_swap_eq|]. split; [exact FT.Proofs.UserActionsTie.gen_user_update_attrs_eq|].
  split; [exact FT.Proofs.UserActionsTie.gen_user_delete_node_eq|].
  split; [intros st n a px force top WB; exact (FT.Proofs.UserActionsTie.gen_user_add_node_eq st n a px force top (FT.Proofs.UserActionsTie.W_book_book_nodes st WB))|].
  exact FT.Proofs.UserActionsTie.gen_user_update_seg_eq.
Qed.

(* ---- ... and the start state need not be assumed well formed: for every valid RAW solution (a forward-in-time
        binary forest whose nodes carry only a time - and, without a segmentation, a position -, labels and
        nodes one-to-one, the feature table of a fresh Tracks, and the networkx oracle answers being the true
        unbranched segments / weakly connected components: raw_ok), the state constructed by enabling the core
        features with recomputation (Proofs/EditInit.v: construct, following Tracks.__init__ /
        _setup_core_computed_features) is well formed, satisfies the configuration facts and has an empty
        history; hence every session over the whole interface from it stays well formed. ---- *)
Theorem C09_sessions_from_construction : forall r0 posk ctrk clin extra ops,
  EditInit.raw_ok r0 posk ctrk clin ->
  (forall k, In k extra -> In k (Toggle.available r0)) ->
  EditSessionsAll.pre_along_all (EditInit.construct r0 ctrk clin extra) ops ->
  forall pre post, ops = pre ++ post -> WF (run (EditInit.construct r0 ctrk clin extra) pre).
Proof. exact EditInit.construct_session_WF. Qed.

(* ---- one level further down: the queries (get_track_neighbors with its in-place sort, has_track_id_at_time,
        next track / lineage id), the node-id counter, Tracks.undo / redo and the seven basic actions with their
        inverses (__init__, _apply, the annotator notifications, the track-annotator bookkeeping and relabel
        walk inlined) of the model equal the code translated on every run from data_model/solution_tracks.py,
        data_model/tracks.py, annotators/_track_annotator.py and actions/*.py (Gen/Core_gen.v; translator
        harness/translate_core.py, fail closed).  The statement is Proofs/CoreTieBundle.v: core_tie_statement.
        Not translated (hand models): the regionprops / edge annotators' update, the bulk compute paths. ---- *)
Theorem C09_core_is_generated : FT.Proofs.CoreTieBundle.core_tie_statement.
Proof. exact FT.Proofs.CoreTieBundle.core_tie. Qed.

(* ---- the two segmentation-derived annotators of the model are, for all arguments, the code translated on every run from the current _regionprops_annotator.py, _edge_annotator.py and _compute_ious.py (Gen/Annotators_gen.v; translator harness/translate_annotators.py, fail closed; combinators Model/PyRt8.v; skimage's regionprops is an oracle of which only WHICH mask of WHICH frame is measured is modelled).  The statements are those of the cited theorems of Proofs/AnnotatorsTie.v ---- *)
Theorem C09_edge_update_is_generated : ltac:(let t := type of @FT.Proofs.AnnotatorsTie.gen_EdgeAnnotator_update_WF in exact t).
Proof. exact @FT.Proofs.AnnotatorsTie.gen_EdgeAnnotator_update_WF. Qed.

Theorem C09_edge_compute_is_generated : ltac:(let t := type of @FT.Proofs.AnnotatorsTie.gen_EdgeAnnotator_compute_WF in exact t).
Proof. exact @FT.Proofs.AnnotatorsTie.gen_EdgeAnnotator_compute_WF. Qed.


(* ---- ... and for a graph that ARRIVES with managed features of its own (an imported or reloaded solution):
        the constructor as the code runs it (Model/EditCtor.v: construct_any, following Tracks.__init__,
        _check_existing_feature, _setup_core_computed_features and TrackAnnotator.__init__ /
        _get_max_id_and_map) fills the id lookups by a scan of whatever ids the nodes carry, then ACTIVATES
        every core feature the first node carries (values taken at face value) and COMPUTES every other one.
        If the features detected on the first node are valid on all nodes (supplied_ok: supplied track ids label
        exactly the unbranched segments, supplied lineage ids exactly the components, supplied positions /
        areas are those of the current masks; nothing is assumed about a feature the first node lacks), the
        constructed state is well formed - whatever combination of supplied and computed features - and so
        is every state of every session over the whole interface from it. Proofs/EditCtorExample.v: a
        solution with non-contiguous supplied track ids and a stale partial lineage id (accepted), and one
        whose supplied ids are invalid (raw_ok holds, supplied_ok fails, the constructed state is NOT well
        formed: the hypothesis is needed).  Tie: the constructor correspondence of every run compares
        construct_any with SolutionTracks.__init__ on every generated raw solution (harness/ctor.py). ---- *)
Theorem C09_sessions_from_any_construction : forall r0 posk ctrk clin extra ops,
  EditInit.raw_ok r0 posk ctrk clin ->
  EditCtor.supplied_ok r0 ->
  (forall k, In k extra -> In k (Toggle.available r0)) ->
  EditSessionsAll.pre_along_all (FT.Model.EditCtor.construct_any r0 ctrk clin extra) ops ->
  forall pre post, ops = pre ++ post -> WF (run (FT.Model.EditCtor.construct_any r0 ctrk clin extra) pre).
Proof. exact EditCtor.construct_any_session_WF. Qed.

(* ---- ... and for tracks constructed with a PREPARED feature registry (features=<FeatureDict>: load_tracks of the
        internal save format, applications that build their own registry): Model/EditCtor.v construct_dict,
        following Tracks._activate_features_from_dict after TrackAnnotator.__init__ - the lookups are filled by the
        scan, every registered key an annotator can manage is activated, NOTHING is computed. If everything the
        registry lists is valid on the graph (EditCtorDict.dict_ok: time, track and lineage ids registered; track
        ids label the unbranched segments, lineage ids the components; every registered regionprops key stores
        the value of the node's current mask, a registered IoU the true overlap; the caller's table is otherwise
        arbitrary), the constructed state is well formed and so is every state of every session over the whole
        interface from it.  Proofs/EditCtorDictExample.v: a reloaded solution with a division, non-contiguous
        ids, positions, areas and IoUs (accepted; the first lineage id issued afterwards lies above the loaded
        maximum), and one with a stale registered area (dict_ok fails and the constructed state is NOT fresh).
        Tie: the constructor correspondence compares construct_dict with SolutionTracks(..., features=...)
        on 15 % of the generated raw solutions (harness/ctor.py, driver line CD). ---- *)
Theorem C09_sessions_from_prepared_registry : forall r0 ops,
  EditCtorDict.dict_ok r0 ->
  EditSessionsAll.pre_along_all (FT.Model.EditCtor.construct_dict r0) ops ->
  forall pre post, ops = pre ++ post -> WF (run (FT.Model.EditCtor.construct_dict r0) pre).
Proof. exact EditCtorDict.construct_dict_session_WF. Qed.

(* ---- sessions that MIX edits with feature switching (Tracks.enable_features with recomputation /
        disable_features of the non-id features; switch_ok excludes the two id keys - Proofs/ToggleRefuted.v
        shows why - and registration without recomputation):
        C09_switch_step: one switch call keeps the complete invariant WF and the side facts (side_ok =
        cfg_keys, reg_ok, rp_disjoint, rp_decl) and touches neither the two history stacks nor the array; a
        refused call returns the state itself.
        C09_sessions_with_switching_partial: every state reached along   switches ++ (an editing session over
        the whole interface, undo / redo included) ++ (any mix of switches and edits in which nothing is undone
        or redone)   is well formed.  "partial": undo / redo AFTER a switch is not covered unconditionally.
        C09_sessions_with_switching_conditional: the statement for ANY interleaving, from the one hypothesis
        that is still open (transport_along: the recorded actions stay consistent transitions between the
        switched timeline states - a simulation of the inverses between two feature tables).
        Proofs/EditSessionsToggle.v also contains a refutation of the unconditional statement for a configuration
        the implementation cannot be in (regionprops keys declared without a label array): the model's
        hypotheses, not the code, are too weak there; with an array no counter-example is known and the
        correspondence runs such sessions on every check (toggles in C08 / C09 / C10). ---- *)
Theorem C09_switch_step : ltac:(let t := type of @FT.Proofs.EditSessionsToggle.switch_step2 in exact t).
Proof. exact @FT.Proofs.EditSessionsToggle.switch_step2. Qed.
Theorem C09_sessions_with_switching_partial : ltac:(let t := type of @FT.Proofs.EditSessionsToggle.session_toggle_sandwich_reachable_WF in exact t).
Proof. exact @FT.Proofs.EditSessionsToggle.session_toggle_sandwich_reachable_WF. Qed.
Theorem C09_sessions_with_switching_conditional : ltac:(let t := type of @FT.Proofs.EditSessionsToggle.session_toggle_reachable_WF_conditional in exact t).
Proof. exact @FT.Proofs.EditSessionsToggle.session_toggle_reachable_WF_conditional. Qed.

Example C09_ex0_fresh :
  seg ex0 = Some sg0 /\ iou_act (ft ex0) = true /\ iou_fresh ex0 /\ W_seg ex0 /\ nodes_sane ex0 sg0 /\ edges_sane ex0 /\
  edge ex0 2 4 /\ iou_of ex0 sg0 2 4 = VIou 1 3 /\ iou_of ex0 sg0 1 3 = VIou 0 1.
Proof.
  split; [reflexivity|split; [reflexivity|split; [exact ex0_iou_fresh|split; [exact ex0_W_seg|split; [exact ex0_nodes_sane|split; [exact ex0_edges_sane|]]]]]].
  repeat split; reflexivity.
Qed.

(* a skip edge: node 1 lives in frame 0, node 4 in frame 2; each mask is taken in its own frame *)
Example C09_ex0_skip_edge :
  let s := rstate (do_add_edge ex0 1 4 [(KIou, VTok 99)]) in
  time_of ex0 1 = 0 /\ time_of ex0 4 = 2 /\
  mask_of sg0 0 1 = [0;1] /\ mask_of sg0 2 4 = [1;2] /\
  lookup KIou (edge_attrs s 1 4) = Some (VIou 1 3).
Proof. vm_compute. repeat split; reflexivity. Qed.

(* strokes: shrinking node 4 to one pixel makes 2-4 disjoint; painting label 2 over the rest of frame 1
   deletes node 3 and changes both IoUs of node 2; undo recomputes the old values *)
Example C09_ex0_paint :
  let s1 := fst (step ex0 (OPaint 5 2 [0;1] 9 false)) in
  let s2 := fst (step ex0 (OPaint 2 1 [2;3] 9 false)) in
  lookup KIou (edge_attrs s1 2 4) = Some (VIou 0 1) /\
  lookup KIou (edge_attrs (fst (step s1 OUndo)) 2 4) = Some (VIou 1 3) /\
  lookup KIou (edge_attrs s2 1 2) = Some (VIou 2 4) /\ lookup KIou (edge_attrs s2 2 4) = Some (VIou 2 4) /\
  has_edge s2 1 3 = false /\
  lookup KIou (edge_attrs (fst (step s2 OUndo)) 1 2) = Some (VIou 2 2) /\
  lookup KIou (edge_attrs (fst (step s2 OUndo)) 1 3) = Some (VIou 0 1).
Proof. vm_compute. repeat split; reflexivity. Qed.

Print Assumptions C09_iou_of_spec.
Print Assumptions C09_fresh_add_edge.
Print Assumptions C09_add_edge_value.
Print Assumptions C09_fresh_upd_seg.
Print Assumptions C09_fresh_add_node.
Print Assumptions C09_fresh_other.
Print Assumptions C09_run_edge_calls.
Print Assumptions C09_history_is_generated.
Print Assumptions C09_run_node_calls.
Print Assumptions C09_sessions.
Print Assumptions C09_paint.
Print Assumptions C09_run_paint_calls.
Print Assumptions C09_user_actions_are_generated.
Print Assumptions C09_sessions_from_construction.
Print Assumptions C09_core_is_generated.
Print Assumptions C09_edge_update_is_generated.
Print Assumptions C09_edge_compute_is_generated.
Print Assumptions C09_sessions_from_any_construction.
Print Assumptions C09_sessions_from_prepared_registry.
Print Assumptions C09_switch_step.
Print Assumptions C09_sessions_with_switching_partial.
Print Assumptions C09_sessions_with_switching_conditional.
