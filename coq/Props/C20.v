(* Property C20 - Exactly one refresh per successful change.
   [rlog] of the edit-machine model (Model/Edit.v) is the list of payloads the refresh signal
   was emitted with, oldest first; [step] (Model/EditExec.v) is one call of the public API with
   its outcome code (0 ok, 1 True, 2 False, >= 10 an exception).
   This file holds only the property theorems (each closed by [exact] of a theorem of
   Proofs/EditFrame.v), a non-vacuity example, and Print Assumptions. *)
From Coq Require Import ZArith List Bool.
From FT Require Import Base.Dict Model.Edit Model.EditExec Proofs.EditInv Proofs.EditFrame.
From FT Require Gen.History_gen Proofs.HistoryGen Props.C02.
From FT Require Gen.UserActions_gen Proofs.UserActionsTie.
From FT Require Proofs.CoreTieBundle.
From FT Require Model.ToggleExec Proofs.EditSessionsToggle Proofs.EditRefreshCount.
Import ListNotations.
Open Scope Z_scope.

(* One call of the API.  A successful top-level user action appends exactly one payload to the
   log - the node id for add-node, the new label or None for a paint stroke, None otherwise -
   and a refused one (any exception) appends nothing; undo / redo append one None exactly when
   they return True; queries append nothing.  Nested user actions (a forced add-edge deleting
   the conflicting edge, delete-node inside a paint stroke, ...) therefore never emit. *)
Theorem C20_step : forall st o st' code aux, step st o = (st', (code, aux)) ->
  match o with
  | OAddEdge _ _ _ | ODelEdge _ _ | ODelNode _ | OSwap _ _ | OUpdAttrs _ _ =>
      (code = 0 -> rlog st' = rlog st ++ [None]) /\ (code <> 0 -> rlog st' = rlog st)
  | OAddNode n _ _ _ =>
      (code = 0 -> rlog st' = rlog st ++ [Some n]) /\ (code <> 0 -> rlog st' = rlog st)
  | OPaint new_value _ _ _ _ =>
      (code = 0 -> exists p, rlog st' = rlog st ++ [p] /\ (p = None \/ p = Some new_value)) /\
      (code <> 0 -> rlog st' = rlog st)
  | OUndo | ORedo =>
      (code = 1 -> rlog st' = rlog st ++ [None]) /\ (code <> 1 -> rlog st' = rlog st)
  | ONeighbors _ _ | OHasTrackAt _ _ | ONewIds _ | ONextIds => rlog st' = rlog st
  end.
Proof. exact EditFrame.C20_step. Qed.

(* Over a whole session the log only grows, by at most one entry per call. *)
Theorem C20_run : forall ops st, exists ext,
  rlog (run st ops) = rlog st ++ ext /\ (length ext <= length ops)%nat.
Proof. exact EditFrame.C20_run. Qed.

(* The cores of all user actions, and the user actions constructed with _top_level=False,
   leave the log alone whether they succeed or raise ([rstate] is the state in both cases). *)
Theorem C20_nested_silent : forall st,
  (forall u v, rlog (rstate (user_delete_edge_core st u v)) = rlog st) /\
  (forall u v force, rlog (rstate (user_add_edge_core st u v force)) = rlog st) /\
  (forall n pxo, rlog (rstate (user_delete_node_core st n pxo)) = rlog st) /\
  (forall n a px force, rlog (rstate (user_add_node_core st n a px force)) = rlog st) /\
  (forall n1 n2, rlog (rstate (user_swap_core st n1 n2)) = rlog st) /\
  (forall n new, rlog (rstate (user_update_attrs_core st n new)) = rlog st) /\
  (forall nv groups T force, rlog (rstate (user_update_seg_core st nv groups T force)) = rlog st) /\
  (forall u v, rlog (rstate (user_delete_edge st u v false)) = rlog st) /\
  (forall u v force, rlog (rstate (user_add_edge st u v force false)) = rlog st) /\
  (forall n pxo, rlog (rstate (user_delete_node st n pxo false)) = rlog st) /\
  (forall n a px force, rlog (rstate (user_add_node st n a px force false)) = rlog st).
Proof. exact EditFrame.nested_silent. Qed.

(* non-vacuity: two nodes 1@t0 and 2@t1 on their own tracks, no segmentation.  Adding the edge
   1->2 succeeds and emits [None]; the backward edge 2->1 is refused (InvalidActionError, code 10)
   and emits nothing; undo returns True and emits another None. *)
Definition ex_feats : feats :=
  {| reg_node := [KTime; KPos; KTrack; KLin]; reg_edge := []; pos_keys := [KPos];
     rp_all := []; rp_act := []; iou_avail := false; iou_act := false;
     trk_act := true; lin_act := true |}.
Definition ex_state : state :=
  mk_state [(1, [(KTime, VZ 0); (KPos, VTok 1); (KTrack, VZ 1); (KLin, VZ 1)]);
            (2, [(KTime, VZ 1); (KPos, VTok 2); (KTrack, VZ 2); (KLin, VZ 2)])]
           [] None ex_feats [(1, [1]); (2, [2])] [(1, [1]); (2, [2])] 2 2 3.

(* ---- undo / redo: the history mechanism this property quantifies over (Tracks.undo / redo,
        ActionHistory) is, in the model, the code translated on every run from the current
        actions/action_history.py (Gen/History_gen.v); C02_timeline states what it guarantees ---- *)
Theorem C20_history_is_generated : forall st a dA,
  (let h := fst (FT.Gen.History_gen.add_new_action state action (FT.Proofs.HistoryGen.to_hist st) a st) in
   undo_stack (hist_add st a) = FT.Gen.History_gen.undo_stack _ _ h /\ redo_stack (hist_add st a) = FT.Gen.History_gen.redo_stack _ _ h) /\
  (let gr := FT.Gen.History_gen.undo state action FT.Proofs.HistoryGen.inv_total dA (FT.Proofs.HistoryGen.to_hist st) in
   match undo st with
   | Ok b s' => snd gr = b /\ undo_stack s' = FT.Gen.History_gen.undo_stack _ _ (fst gr) /\ redo_stack s' = FT.Gen.History_gen.redo_stack _ _ (fst gr)
   | Err _ _ => True
   end).
Proof. exact FT.Props.C02.C02_edit_machine_uses_generated. Qed.

(* ---- the seven composite user actions this property quantifies over are, in the model, the code
        translated on every run from the current user_actions/*.py (Gen/UserActions_gen.v, translator
        harness/translate_user_actions.py, fail closed): the generated definitions equal the hand-written
        ones the theorems above are about, for all arguments (UserAddNode: on states whose track lookup
        lists only nodes, which W_book implies). ---- *)
Theorem C20_user_actions_are_generated :
  (forall st u v top, FT.Gen.UserActions_gen.gen_user_delete_edge st u v top = user_delete_edge st u v top) /\
  (forall st u v force top, FT.Gen.UserActions_gen.gen_user_add_edge st u v force top = user_add_edge st u v force top) /\
  (forall st n1 n2, FT.Gen.UserActions_gen.gen_user_swap st n1 n2 = user_swap st n1 n2) /\
  (forall st n new, FT.Gen.UserActions_gen.gen_user_update_attrs st n new = user_update_attrs st n new) /\
  (forall st n px top, FT.Gen.UserActions_gen.gen_user_delete_node st n px top = user_delete_node st n px top) /\
  (forall st n a px force top, W_book st ->
     FT.Gen.UserActions_gen.gen_user_add_node st n a px force top = user_add_node st n a px force top) /\
  (forall st nv groups T force, FT.Gen.UserActions_gen.gen_user_update_seg st nv groups T force = user_update_seg st nv groups T force).
Proof.
  split; [exact FT.Proofs.UserActionsTie.gen_user_delete_edge_eq|]. split; [exact FT.Proofs.UserActionsTie.gen_user_add_edge_eq|].
  split; [exact FT.Proofs.UserActionsTie.gen_user_swap_eq|]. split; [exact FT.Proofs.UserActionsTie.gen_user_update_attrs_eq|].
  split; [exact FT.Proofs.UserActionsTie.gen_user_delete_node_eq|].
  split; [intros st n a px force top WB; exact (FT.Proofs.UserActionsTie.gen_user_add_node_eq st n a px force top (FT.Proofs.UserActionsTie.W_book_book_nodes st WB))|].
  exact FT.Proofs.UserActionsTie.gen_user_update_seg_eq.
Qed.

(* ---- one level further down: the queries (get_track_neighbors with its in-place sort, has_track_id_at_time,
        next track / lineage id), the node-id counter, Tracks.undo / redo and the seven basic actions with their
        inverses (__init__, _apply, the annotator notifications, the track-annotator bookkeeping and relabel
        walk inlined) of the model equal the code translated on every run from data_model/solution_tracks.py,
        data_model/tracks.py, annotators/_track_annotator.py and actions/*.py (Gen/Core_gen.v; translator
        harness/translate_core.py, fail closed).  The statement is Proofs/CoreTieBundle.v: core_tie_statement.
        Not translated (hand models): the regionprops / edge annotators' update, the bulk compute paths. ---- *)
Theorem C20_core_is_generated : FT.Proofs.CoreTieBundle.core_tie_statement.
Proof. exact FT.Proofs.CoreTieBundle.core_tie. Qed.

(* ---- exact count (Proofs/EditRefreshCount.v): over every session - any calls, any outcomes - the log grows by
        exactly one entry per successful top-level edit (code 0) and per undo / redo that returns True (code 1), and
        by nothing else: refused edits, undo / redo at the ends of the timeline and queries add none.  [successes]
        counts those calls along the session. ---- *)
Theorem C20_run_exact : forall ops st, exists ext,
  rlog (run st ops) = rlog st ++ ext /\ length ext = FT.Proofs.EditRefreshCount.successes st ops.
Proof. exact FT.Proofs.EditRefreshCount.refresh_count. Qed.
(* feature switching (enable / disable, with or without recomputation) emits nothing and leaves both history
   stacks alone, whatever it returns *)
Theorem C20_switch_silent : forall st o, FT.Proofs.EditSessionsToggle.is_switch o = true ->
  let s := fst (FT.Model.ToggleExec.step2 st o) in
  rlog s = rlog st /\ undo_stack s = undo_stack st /\ redo_stack s = redo_stack st.
Proof. exact FT.Proofs.EditRefreshCount.switch_silent. Qed.
Example C20_exact_nonvacuous :
  FT.Proofs.EditRefreshCount.successes ex_state [OAddEdge 1 2 false; OAddEdge 2 1 false; OUndo; OUndo; ORedo; ONextIds] = 3%nat /\
  length (rlog (run ex_state [OAddEdge 1 2 false; OAddEdge 2 1 false; OUndo; OUndo; ORedo; ONextIds])) = 3%nat.
Proof. vm_compute. split; reflexivity. Qed.

Example C20_nonvacuous :
  let '(s1, (c1, _)) := step ex_state (OAddEdge 1 2 false) in
  let '(s2, (c2, _)) := step s1 (OAddEdge 2 1 false) in
  let '(s3, (c3, _)) := step s2 OUndo in
  rlog ex_state = [] /\
  c1 = 0 /\ rlog s1 = [None] /\ has_edge s1 1 2 = true /\
  c2 = 10 /\ rlog s2 = [None] /\
  c3 = 1 /\ rlog s3 = [None; None] /\ has_edge s3 1 2 = false /\
  rlog (run ex_state [OAddEdge 1 2 false; OAddEdge 2 1 false; OUndo]) = [None; None].
Proof. vm_compute. repeat split. Qed.

Print Assumptions C20_step.
Print Assumptions C20_run.
Print Assumptions C20_nested_silent.
Print Assumptions C20_history_is_generated.
Print Assumptions C20_user_actions_are_generated.
Print Assumptions C20_core_is_generated.
Print Assumptions C20_run_exact.
Print Assumptions C20_switch_silent.
