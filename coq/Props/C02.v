(* Property C02 - undo/redo follow a never-forgetting linear timeline.
   Only statements (closed by [exact]), a non-vacuity example and Print Assumptions.
   The mechanism the theorems speak about is Gen/History_gen.v, which the translator
   (harness/translate_history.py) regenerates from /repo/src/funtracks/actions/action_history.py
   on every run. *)
From Coq Require Import List Arith Bool ZArith.
From FT Require Import Base.Dict Model.Edit Model.EditExec Proofs.EditInv Proofs.EditFrame.
From FT Require Gen.History_gen Proofs.HistoryGeneric Proofs.HistoryTie Proofs.HistoryGen.
From FT Require Proofs.EditInverse.
From FT Require Proofs.EditBook Proofs.EditSessions Proofs.EditSessionsFull Proofs.EditSessionsAll.
From FT Require Model.Toggle Proofs.EditInit.
From FT Require Proofs.CoreTieBundle.
From FT Require Model.EditCtor Proofs.EditCtor.
Import ListNotations.

Module G := FT.Gen.History_gen.
Module A := FT.Proofs.HistoryGeneric.
Module T := FT.Proofs.HistoryTie.
Module H := FT.Proofs.HistoryGen.

(* (1) The generated add_new_action / undo / redo are the abstract two-stack mechanism. *)
Theorem C02_generated_is_mechanism : forall (St Act : Type) (inv : St -> Act -> St * Act) (dA : Act) (h : G.hist St Act),
  (forall a s', T.g2a St Act (fst (G.add_new_action St Act h a s')) = A.add_new_action St Act (T.g2a St Act h) a s') /\
  (T.g2a St Act (fst (G.undo St Act inv dA h)), snd (G.undo St Act inv dA h)) = A.undo St Act inv dA (T.g2a St Act h) /\
  (T.g2a St Act (fst (G.redo St Act inv dA h)), snd (G.redo St Act inv dA h)) = A.redo St Act inv dA (T.g2a St Act h).
Proof. intros St Act inv dA h. split; [intros a s'; apply T.add_tie|split; [apply T.undo_tie|apply T.redo_tie]]. Qed.

(* (2) For every finite sequence over {edit, undo, redo} run on the generated mechanism from a
   fresh history: the boolean results equal those of the reference timeline (list of visited
   states + cursor; undo = cursor-1, redo = cursor+1, an edit after k undos appends the k
   undone states in reverse and then the new state), the current state is (equivalent to)
   the state under the cursor, and the timeline only ever grows at the end.
   [Tr a x y] : a is a recorded transition from x to y; [Tr_inv] is property C01 in the form
   "inverting a recorded transition lands on its source and records the opposite transition". *)
Theorem C02_timeline :
  forall (St Act : Type) (eqv : St -> St -> Prop),
  (forall s, eqv s s) -> (forall a b c, eqv a b -> eqv b c -> eqv a c) ->
  forall (inv : St -> Act -> St * Act) (Tr : Act -> St -> St -> Prop),
  (forall a x y s, Tr a x y -> eqv s y -> eqv (fst (inv s a)) x /\ Tr (snd (inv s a)) y x) ->
  (forall a x x' y, Tr a x y -> eqv x x' -> Tr a x' y) ->
  forall (dA : Act) (dS : St) (ops : list (A.hop St Act)) (s0 : St),
  A.valid St Act inv Tr dA (T.g2a St Act (G.init St Act s0)) ops ->
  let hr := H.grun St Act inv dA (G.init St Act s0) ops in
  let tr := A.trun St Act {| A.tl := [s0]; A.c := 0 |} ops in
  snd hr = snd tr /\
  eqv (G.cur St Act (fst hr)) (nth (A.c St (fst tr)) (A.tl St (fst tr)) dS) /\
  (exists ext, A.tl St (fst tr) = [s0] ++ ext).
Proof.
  intros St Act eqv Hr _ inv Tr Hinv Hsrc dA dS ops s0 V.
  exact (H.gen_history_refines_timeline St Act eqv Hr inv Tr Hinv Hsrc dA dS ops s0 V).
Qed.

(* (3) undo / redo report False exactly at the ends of the timeline and then change nothing. *)
Theorem C02_false_means_nothing : forall (St Act : Type) (inv : St -> Act -> St * Act) (dA : Act) (h : A.hist St Act) (t : A.tline St),
  (snd (A.undo St Act inv dA h) = false -> fst (A.undo St Act inv dA h) = h) /\
  (snd (A.redo St Act inv dA h) = false -> fst (A.redo St Act inv dA h) = h) /\
  (snd (A.t_undo St t) = false <-> A.c St t = 0%nat) /\
  (snd (A.t_redo St t) = false <-> (length (A.tl St t) <= S (A.c St t))%nat).
Proof.
  intros St Act inv dA h t. split; [apply A.undo_false_id|split; [apply A.redo_false_id|split; [apply A.t_undo_false|apply A.t_redo_false]]].
Qed.

(* (4) In the edit machine every top-level user action is exactly one step of the history,
   however many primitive edits it contains; refused actions, nested actions and queries are none. *)
Theorem C02_one_step : forall st o st' code aux, step st o = (st', (code, aux)) ->
  match o with
  | OAddEdge _ _ _ | ODelEdge _ _ | OAddNode _ _ _ _ | ODelNode _ | OSwap _ _ | OUpdAttrs _ _ | OPaint _ _ _ _ _ =>
      (code = 0%Z -> exists a, undo_stack st' = (undo_stack st ++ redo_stack st) ++ [a] /\ redo_stack st' = []) /\
      (code <> 0%Z -> undo_stack st' = undo_stack st /\ redo_stack st' = redo_stack st)
  | OUndo => (code = 1%Z -> undo_stack st' = undo_stack st /\ exists b, redo_stack st' = redo_stack st ++ [b]) /\
             (code = 2%Z -> st' = st)
  | ORedo => (code = 1%Z -> undo_stack st' = undo_stack st /\ redo_stack st' = removelast (redo_stack st)) /\
             (code = 2%Z -> st' = st)
  | _ => undo_stack st' = undo_stack st /\ redo_stack st' = redo_stack st
  end.
Proof.
  intros st o st' code aux Hs. pose proof (one_step_history st o st' code aux Hs) as P.
  destruct o; try exact P; tauto.
Qed.

(* (5) The edit machine's own history code is the generated code. *)
Theorem C02_edit_machine_uses_generated : forall st a dA,
  (let h := fst (G.add_new_action state action (H.to_hist st) a st) in
   undo_stack (hist_add st a) = G.undo_stack _ _ h /\ redo_stack (hist_add st a) = G.redo_stack _ _ h) /\
  (let gr := G.undo state action H.inv_total dA (H.to_hist st) in
   match undo st with
   | Ok b s' => snd gr = b /\ undo_stack s' = G.undo_stack _ _ (fst gr) /\ redo_stack s' = G.redo_stack _ _ (fst gr)
   | Err _ _ => True
   end).
Proof. intros st a dA. split; [apply H.edit_hist_add_tie|apply H.edit_undo_tie]. Qed.

(* non-vacuity: a three-state history on a toy instance (states = numbers, an action adds its
   amount, its inverse subtracts it): edit, edit, undo, undo, edit, undo x3, redo *)
(* (6) The timeline theorem instantiated for the edit machine.  States = model states, actions = recorded
   groups, inv = inv_action made total, equivalence = observational equality between states with
   well-formed dictionaries, Tr = [TrI W_dict] (Props/C01.v proves it for every accepted UserDeleteEdge,
   UserAddEdge, UserSwapPredecessors, UserDeleteNode and UserAddNode made on a well-formed state:
   the C01_consistent theorems).  For EVERY finite sequence of edits (each a recorded transition out of the current
   state), undos and redos: the boolean results are those of the list+cursor timeline, the current state
   is observably the state under the cursor, and the timeline only grows at its end. *)
Theorem C02_edit_machine_timeline :
  forall (dA : action) (dS : state) (ops : list (A.hop state action)) (s0 : state),
  A.valid state action (EditInverse.inv_tot) (EditInverse.TrI W_dict) dA (T.g2a state action (G.init state action s0)) ops ->
  let hr := H.grun state action (EditInverse.inv_tot) dA (G.init state action s0) ops in
  let tr := A.trun state action {| A.tl := [s0]; A.c := 0 |} ops in
  snd hr = snd tr /\
  EditInverse.eqvI W_dict (G.cur state action (fst hr)) (nth (A.c state (fst tr)) (A.tl state (fst tr)) dS) /\
  (exists ext, A.tl state (fst tr) = [s0] ++ ext).
Proof.
  intros dA dS ops s0 V.
  exact (C02_timeline state action (EditInverse.eqvI W_dict) (EditInverse.eqvI_refl W_dict) (EditInverse.eqvI_trans W_dict)
           EditInverse.inv_tot (EditInverse.TrI W_dict) (EditInverse.TrI_inv W_dict) (EditInverse.TrI_src W_dict) dA dS ops s0 V).
Qed.

(* (7) The whole law for the executable edit machine (Proofs/EditSessions.v, EditSessionsFull.v,
   EditSessionsAll.v): for EVERY sequence of calls of the public interface - edge, swap, node, attribute
   and stroke edits, undos, redos, queries - from a well-formed state with an empty history (hypotheses
   as in C03_sessions): the cursor stays inside the timeline, the current model state is observably the state
   under the cursor, every timeline state is well formed, the timeline never forgets (it is st0 :: ext);
   and every OUndo / ORedo reports success exactly when the timeline can move, failing exactly at its ends.
   tl_run_full is the list+cursor reference run over the same calls. *)
Theorem C02_sessions_timeline : forall st0 ops,
  WF st0 -> EditSessions.reg_ok st0 -> EditBook.rp_disjoint st0 -> EditSessionsFull.rp_decl st0 ->
  undo_stack st0 = [] -> redo_stack st0 = [] -> EditSessionsAll.pre_along_all st0 ops ->
  forall dS,
  let t := EditSessionsFull.tl_run_full st0 {| A.tl := [st0]; A.c := 0 |} ops in
  (A.c state t < length (A.tl state t))%nat /\
  EditInverse.obs_eq (run st0 ops) (nth (A.c state t) (A.tl state t) dS) /\
  Forall WF (A.tl state t) /\
  (exists ext, A.tl state t = st0 :: ext).
Proof. exact EditSessionsAll.session_all_timeline. Qed.

Theorem C02_sessions_undo_redo : forall st0 ops,
  WF st0 -> EditSessions.reg_ok st0 -> EditBook.rp_disjoint st0 -> EditSessionsFull.rp_decl st0 ->
  undo_stack st0 = [] -> redo_stack st0 = [] -> EditSessionsAll.pre_along_all st0 ops ->
  forall pre post,
  (ops = pre ++ OUndo :: post ->
     let t := EditSessionsFull.tl_run_full st0 {| A.tl := [st0]; A.c := 0 |} pre in
     fst (snd (step (run st0 pre) OUndo)) = (if snd (A.t_undo state t) then 1 else 2) /\
     (snd (A.t_undo state t) = false <-> A.c state t = 0%nat)) /\
  (ops = pre ++ ORedo :: post ->
     let t := EditSessionsFull.tl_run_full st0 {| A.tl := [st0]; A.c := 0 |} pre in
     fst (snd (step (run st0 pre) ORedo)) = (if snd (A.t_redo state t) then 1 else 2) /\
     (snd (A.t_redo state t) = false <-> (length (A.tl state t) <= S (A.c state t))%nat)).
Proof. exact EditSessionsAll.session_all_undo_redo. Qed.

(* (8) ... from construction: for every valid raw solution (EditInit.raw_ok) the timeline law holds for every
   session over the whole interface from the constructed state, with no assumption on that state. *)
Theorem C02_sessions_from_construction : forall r0 posk ctrk clin extra ops,
  EditInit.raw_ok r0 posk ctrk clin ->
  (forall k, In k extra -> In k (Toggle.available r0)) ->
  EditSessionsAll.pre_along_all (EditInit.construct r0 ctrk clin extra) ops ->
  forall dS,
  let st0 := EditInit.construct r0 ctrk clin extra in
  let t := EditSessionsFull.tl_run_full st0 {| A.tl := [st0]; A.c := 0 |} ops in
  (A.c state t < length (A.tl state t))%nat /\
  EditInverse.obs_eq (run st0 ops) (nth (A.c state t) (A.tl state t) dS) /\
  Forall WF (A.tl state t) /\
  (exists ext, A.tl state t = st0 :: ext).
Proof. exact EditInit.construct_session_timeline. Qed.

(* ---- one level further down: the queries (get_track_neighbors with its in-place sort, has_track_id_at_time,
        next track / lineage id), the node-id counter, Tracks.undo / redo and the seven basic actions with their
        inverses (__init__, _apply, the annotator notifications, the track-annotator bookkeeping and relabel
        walk inlined) of the model equal the code translated on every run from data_model/solution_tracks.py,
        data_model/tracks.py, annotators/_track_annotator.py and actions/*.py (Gen/Core_gen.v; translator
        harness/translate_core.py, fail closed).  The statement is Proofs/CoreTieBundle.v: core_tie_statement.
        Not translated (hand models): the regionprops / edge annotators' update, the bulk compute paths. ---- *)
Theorem C02_core_is_generated : FT.Proofs.CoreTieBundle.core_tie_statement.
Proof. exact FT.Proofs.CoreTieBundle.core_tie. Qed.

(* (9) ... and from the constructor as the code runs it on a graph that arrives with managed features of its own
   (Model/EditCtor.v: construct_any - the id lookups filled by a scan, every core feature found on the first node
   activated at face value, every other one computed): if the detected features are valid on all nodes
   (EditCtor.supplied_ok) the timeline law holds for every session over the whole interface from that state. *)
Theorem C02_sessions_from_any_construction : forall r0 posk ctrk clin extra ops,
  EditInit.raw_ok r0 posk ctrk clin ->
  EditCtor.supplied_ok r0 ->
  (forall k, In k extra -> In k (Toggle.available r0)) ->
  EditSessionsAll.pre_along_all (FT.Model.EditCtor.construct_any r0 ctrk clin extra) ops ->
  forall dS,
  let st0 := FT.Model.EditCtor.construct_any r0 ctrk clin extra in
  let t := EditSessionsFull.tl_run_full st0 {| A.tl := [st0]; A.c := 0 |} ops in
  (A.c state t < length (A.tl state t))%nat /\
  EditInverse.obs_eq (run st0 ops) (nth (A.c state t) (A.tl state t) dS) /\
  Forall WF (A.tl state t) /\
  (exists ext, A.tl state t = st0 :: ext).
Proof. exact EditCtor.construct_any_session_timeline. Qed.

Example C02_nonvacuous :
  let inv := fun (s : Z) (a : Z) => ((s - a)%Z, (- a)%Z) in
  let ops := [A.HEdit Z Z 5%Z 5%Z; A.HEdit Z Z 2%Z 7%Z; A.HUndo Z Z; A.HUndo Z Z; A.HEdit Z Z 1%Z 1%Z;
              A.HUndo Z Z; A.HUndo Z Z; A.HUndo Z Z; A.HUndo Z Z; A.HRedo Z Z] in
  let hr := H.grun Z Z inv 0%Z (G.init Z Z 0%Z) ops in
  snd hr = [true; true; true; true; true; true; true; true; true; true] /\
  G.cur Z Z (fst hr) = 7%Z /\
  A.tl Z (fst (A.trun Z Z {| A.tl := [0%Z]; A.c := 0 |} ops)) = [0; 5; 7; 5; 0; 1]%Z.
Proof. vm_compute. repeat split. Qed.

Print Assumptions C02_generated_is_mechanism.
Print Assumptions C02_timeline.
Print Assumptions C02_false_means_nothing.
Print Assumptions C02_one_step.
Print Assumptions C02_edit_machine_uses_generated.
Print Assumptions C02_edit_machine_timeline.
Print Assumptions C02_sessions_timeline.
Print Assumptions C02_sessions_undo_redo.
Print Assumptions C02_sessions_from_construction.
Print Assumptions C02_core_is_generated.
Print Assumptions C02_sessions_from_any_construction.
