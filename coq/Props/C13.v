(* Property C13 - Relabelling on import moves each mask to its node id pixel-exactly.
   This file holds only the property theorems (each closed by [exact] of a lemma of
   Proofs/RelabelProofs.v), non-vacuity examples, and Print Assumptions.

   rows : the imported nodes (node id, time, seg id) in the order of the arrays
          node_ids / time_values / seg_ids          (record tnode of Model/LabelUtils.v)
   old  : the source label array, a list of frames of flat pixel lists
   key r = (n_time r, n_seg r);   label_at a t p = pixel p of frame t;
   same_shape a b = same number of frames and same frame sizes.
   seg id 0 is NOT excluded: a row with seg id 0 claims the background pixels of its
   frame, which is what the code does (new[t][old[t] == 0] = node id). *)
From Coq Require Import ZArith List Bool.
From FT Require Import Model.LabelUtils Model.Relabel Proofs.LabelUtilsProofs Proofs.RelabelProofs.
From FT Require Gen.Relabel_gen Proofs.RelabelTie.
From FT Require Proofs.ImportTie.
Import ListNotations.
Open Scope Z_scope.

(* the offset is 1 exactly when 0 is among the node ids *)
Theorem C13_offset : forall rows,
  (In 0 (map n_id rows) /\ offset rows = 1) \/ (~ In 0 (map n_id rows) /\ offset rows = 0).
Proof. exact offset_cases. Qed.

(* (1) every pixel whose old label is claimed by a row of its frame gets that row's node id
   (+ offset), every other pixel becomes background; the shape is that of the source. *)
Theorem C13_relabel : forall rows old,
  NoDup (map key rows) ->
  (forall r, In r rows -> (n_time r < length old)%nat) ->
  let off := offset rows in
  let new := fst (relabel_segmentation rows old) in
  same_shape new old /\
  forall t p, (t < length old)%nat -> (p < length (nth t old []))%nat ->
    (forall r, In r rows -> n_time r = t -> n_seg r = label_at old t p -> label_at new t p = n_id r + off) /\
    ((forall r, In r rows -> ~ (n_time r = t /\ n_seg r = label_at old t p)) -> label_at new t p = 0).
Proof. exact relabel_spec. Qed.

(* (1') without the distinctness assumption: the last row claiming (t, old label) wins *)
Theorem C13_relabel_last_wins : forall rows old t p,
  (forall r, In r rows -> (n_time r < length old)%nat) ->
  (t < length old)%nat -> (p < length (nth t old []))%nat ->
  label_at (fst (relabel_segmentation rows old)) t p =
    match find (fun r => Nat.eqb (n_time r) t && (n_seg r =? label_at old t p)) (rev rows) with
    | Some r => n_id r + offset rows
    | None => 0
    end.
Proof. exact relabel_last_wins. Qed.

(* (2) graph and segmentation shift together: the returned node ids are the given ids + offset, in order *)
Theorem C13_graph_shift : forall rows old,
  let rows' := snd (relabel_segmentation rows old) in
  map n_id rows' = map (fun i => i + offset rows) (map n_id rows) /\
  map n_time rows' = map n_time rows /\ map n_seg rows' = map n_seg rows.
Proof. exact relabel_graph_shift. Qed.

(* (3) when the identity shortcut of handle_segmentation is taken, the array returned
   unchanged already satisfies the characterisation of (1) with offset 0 *)
Theorem C13_shortcut_sound : forall rows old, shortcut_ok rows old = true ->
  forall t p, (t < length old)%nat -> (p < length (nth t old []))%nat ->
    (forall r, In r rows -> n_time r = t -> n_seg r = label_at old t p -> label_at old t p = n_id r + 0) /\
    ((forall r, In r rows -> ~ (n_time r = t /\ n_seg r = label_at old t p)) -> label_at old t p = 0).
Proof. exact shortcut_sound. Qed.

(* hence both branches of handle_segmentation meet the same specification, unless the shortcut
   is taken while 0 is a node id (excluded by the third hypothesis; see the last Example) *)
Theorem C13_handle_segmentation : forall rows old,
  NoDup (map key rows) ->
  (forall r, In r rows -> (n_time r < length old)%nat) ->
  (shortcut_ok rows old = true -> ~ In 0 (map n_id rows)) ->
  let off := offset rows in
  let new := fst (handle_segmentation rows old) in
  let rows' := snd (handle_segmentation rows old) in
  same_shape new old /\
  map n_id rows' = map (fun i => i + off) (map n_id rows) /\
  forall t p, (t < length old)%nat -> (p < length (nth t old []))%nat ->
    (forall r, In r rows -> n_time r = t -> n_seg r = label_at old t p -> label_at new t p = n_id r + off) /\
    ((forall r, In r rows -> ~ (n_time r = t /\ n_seg r = label_at old t p)) -> label_at new t p = 0).
Proof. exact handle_segmentation_spec. Qed.

(* ---------- non-vacuity ---------- *)
Definition R (i : Z) (t : nat) (s : Z) : tnode := {| n_id := i; n_time := t; n_seg := s |}.

(* frame 0: the ids are a cyclic permutation of the labels (1->2, 2->3, 3->1: a chain);
   frame 1 reuses labels 1 and 2; label 9 is unlisted in both frames; node 6 has no pixels *)
(* ---- relabel_segmentation is, for all arguments, the code translated on every run from the current
        import_export/_import_segmentation.py (Gen/Relabel_gen.v; translator harness/translate_numpy_utils.py,
        fail closed): called with the three columns of one row list it returns the model's array and the graph
        node ids shifted by the model's offset. ---- *)
Theorem C13_relabel_is_generated : forall rows old g,
  FT.Gen.Relabel_gen.gen_relabel_segmentation old g (map n_id rows) (map n_seg rows) (map FT.Proofs.RelabelTie.tz rows) =
  (fst (relabel_segmentation rows old), map (fun n => (n + offset rows)%Z) g).
Proof. exact FT.Proofs.RelabelTie.gen_relabel_segmentation_eq. Qed.

(* ---- the import pipeline of the model is, for all arguments, the code translated on every run from the current _tracks_builder.py, csv/_import.py, geff/_import.py and _validation.py (Gen/ImportPipeline_gen.v; translator harness/translate_import.py, fail closed; combinators Model/PyRt6.v; pandas dtype inference, geff's id validators and file reading stay oracle inputs).  The statements are those of the cited theorems of Proofs/ImportTie.v: whole CSV build = import_csv, whole GEFF build = import_geff, handle_segmentation = the model's ---- *)
Theorem C13_handle_segmentation_is_generated : ltac:(let t := type of @FT.Proofs.ImportTie.gen_handle_segmentation_eq in exact t).
Proof. exact @FT.Proofs.ImportTie.gen_handle_segmentation_eq. Qed.


Example C13_permuted_chain :
  let rows := [R 2 0 1; R 3 0 2; R 1 0 3; R 5 1 1; R 4 1 2; R 6 1 8] in
  let old := [[1;2;3;0;9;1]; [1;1;2;9;0;2]] in
  NoDup (map key rows) /\ (forall r, In r rows -> (n_time r < length old)%nat) /\
  shortcut_ok rows old = false /\
  handle_segmentation rows old = ([[2;3;1;0;0;2]; [5;5;4;0;0;4]], rows).
Proof.
  cbv zeta. split; [|split; [|split; reflexivity]].
  - unfold key; cbn. repeat (constructor; [cbn; intuition congruence|]). constructor.
  - intros r Hin. cbn in Hin. cbn [length]. intuition (subst; cbn; auto).
Qed.

(* node id 0: all ids shift by one, in the array and in the returned rows;
   label 2 of frame 0 equals the (unshifted) id of the node claiming label 1 of frame 1 *)
Example C13_id_zero :
  let rows := [R 0 0 1; R 1 0 2; R 2 1 1] in
  let old := [[1;2;0;7]; [1;0;2;1]] in
  NoDup (map key rows) /\ offset rows = 1 /\
  relabel_segmentation rows old = ([[1;2;0;0]; [3;0;0;3]], [R 1 0 1; R 2 0 2; R 3 1 1]).
Proof.
  cbv zeta. split; [|split; reflexivity].
  unfold key; cbn. repeat (constructor; [cbn; intuition congruence|]). constructor.
Qed.

(* seg ids = node ids and every frame's labels are listed: the shortcut is taken;
   one stray label (5 in frame 1, where node 5 does not live) forces the relabel branch *)
Example C13_shortcut_taken_or_not :
  let rows := [R 5 0 5; R 9 1 9] in
  shortcut_ok rows [[5;5;0];[9;0;0]] = true /\
  handle_segmentation rows [[5;5;0];[9;0;0]] = ([[5;5;0];[9;0;0]], rows) /\
  shortcut_ok rows [[5;5;7];[9;0;5]] = false /\
  handle_segmentation rows [[5;5;7];[9;0;5]] = ([[5;5;0];[9;0;0]], rows).
Proof. cbv zeta. repeat split; reflexivity. Qed.

(* a repeated (time, seg id): the later row wins (dict(zip(...))) *)
Example C13_duplicate_claim :
  fst (relabel_segmentation [R 4 0 1; R 7 0 1] [[1;0;1]]) = [[7;0;7]].
Proof. reflexivity. Qed.

(* The case excluded from C13_handle_segmentation: seg ids = node ids with a node 0 (its seg id
   is then 0, the background).  The shortcut returns graph and array unshifted, whereas
   relabel_segmentation shifts both by one and paints the background of node 0's frame. *)
Example C13_shortcut_id0_differs :
  let rows := [R 0 0 0; R 5 0 5] in
  shortcut_ok rows [[0;5]] = true /\
  handle_segmentation rows [[0;5]] = ([[0;5]], rows) /\
  relabel_segmentation rows [[0;5]] = ([[1;6]], [R 1 0 0; R 6 0 5]).
Proof. cbv zeta. repeat split; reflexivity. Qed.

Print Assumptions C13_offset.
Print Assumptions C13_relabel.
Print Assumptions C13_relabel_last_wins.
Print Assumptions C13_graph_shift.
Print Assumptions C13_shortcut_sound.
Print Assumptions C13_handle_segmentation.
Print Assumptions C13_relabel_is_generated.
Print Assumptions C13_handle_segmentation_is_generated.
