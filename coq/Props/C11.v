(* Property C11 - a refused edit changes nothing.
   An exception is modelled as [Err e st'] where st' is the state as mutated up to the raise.
   PROVED here (for every state satisfying W_dict and W_forest): a refused UserDeleteEdge,
   UserAddEdge (forced or not), UserSwapPredecessors or UserUpdateNodeAttrs returns exactly the
   state it was given
   (Leibniz equality on the whole record: graph, attributes, array, lookups, history, log).
   NOT YET PROVED as theorems (decided by the differential correspondence and the deep
   before/after oracle only): UserAddNode, UserDeleteNode, the paint action.  See DESIGN.md section 9 (C11). *)
From Coq Require Import ZArith List Bool.
From FT Require Import Base.Dict Model.Edit Model.EditExec Proofs.EditInv Proofs.EditUserEdge Proofs.EditUserEdgeCor Props.C03.
From FT Require Proofs.EditSwap.
Import ListNotations.
Open Scope Z_scope.

Theorem C11_delete_edge : forall st u v top e st', W_dict st -> W_forest st ->
  user_delete_edge st u v top = Err e st' -> st' = st /\ e = EInvalid false.
Proof. exact delete_edge_refused_unchanged. Qed.

Theorem C11_add_edge : forall st u v force top e st', W_dict st -> W_forest st ->
  user_add_edge st u v force top = Err e st' -> st' = st.
Proof. exact add_edge_refused_unchanged. Qed.

Theorem C11_update_attrs : forall st n new e st',
  user_update_attrs st n new = Err e st' -> st' = st /\ (e = EValue \/ e = EKey).
Proof. exact update_attrs_refused_unchanged. Qed.


(* a refused swap returns the state it was given; in particular none of its four nested edits
   can be refused after an earlier one was applied *)
Theorem C11_swap : forall st n1 n2 e st', W_dict st -> W_forest st ->
  user_swap st n1 n2 = Err e st' -> st' = st.
Proof. exact EditSwap.swap_refused_unchanged. Qed.

(* at the level of the interpreter: the three ops, whatever their arguments *)
Theorem C11_step_edge_ops : forall st o st' code aux, W_dict st -> W_forest st ->
  step st o = (st', (code, aux)) ->
  match o with
  | OAddEdge _ _ _ | ODelEdge _ _ | OUpdAttrs _ _ => code <> 0 -> st' = st
  | _ => True
  end.
Proof. exact step_edge_ops_refused_unchanged. Qed.

(* non-vacuity: refusals on the fixture forest of Props/C03.v leave it untouched,
   also the forced refusal that used to remove the merge edge first (finding F-11b) *)
Example C11_nonvacuous :
  fst (step fx (OAddEdge 1 6 true)) = fx /\ fst (snd (step fx (OAddEdge 1 6 true))) = 10 /\
  fst (step fx (OAddEdge 1 5 true)) = fx /\ fst (snd (step fx (OAddEdge 1 5 true))) = 10 /\
  fst (step fx (ODelEdge 2 5)) = fx /\
  fst (step fx (OUpdAttrs 2 [(KTime, VZ 7)])) = fx /\ fst (snd (step fx (OUpdAttrs 2 [(KTime, VZ 7)]))) = 12.
Proof. vm_compute. repeat split. Qed.

Print Assumptions C11_delete_edge.
Print Assumptions C11_add_edge.
Print Assumptions C11_update_attrs.
Print Assumptions C11_swap.
Print Assumptions C11_step_edge_ops.
