(* Property C11 - a refused edit changes nothing.
   An exception is modelled as [Err e st'] where st' is the state as mutated up to the raise.
   PROVED here (for every state satisfying W_dict and W_forest): a refused UserDeleteEdge,
   UserAddEdge (forced or not), UserSwapPredecessors or UserUpdateNodeAttrs returns exactly the
   state it was given
   (Leibniz equality on the whole record: graph, attributes, array, lookups, history, log).
   NOT YET PROVED as theorems (decided by the differential correspondence and the deep
   before/after oracle only): UserAddNode, UserDeleteNode, the paint action.  See DESIGN.md section 9 (C11). *)
From Coq Require Import ZArith List Bool.
From FT Require Import Base.Dict Model.Edit Model.EditExec Proofs.EditInv Proofs.EditUserEdge Proofs.EditUserEdgeCor Props.C03.
From FT Require Proofs.EditSwap.
From FT Require Proofs.EditNodeBasic Proofs.EditBook Proofs.EditUDN Proofs.EditUAN Proofs.EditWFEdge.
From FT Require Gen.History_gen Proofs.HistoryGen Props.C02.
From FT Require Proofs.EditWFPaint Proofs.EditWFPaintRollback Proofs.EditSessions Proofs.EditInverse Proofs.EditFrame.
From FT Require Gen.UserActions_gen Proofs.UserActionsTie.
From FT Require Proofs.CoreTieBundle.
From FT Require Proofs.EditSessionsFull Proofs.EditSessionsAll Proofs.EditSessionsRefused.
Import ListNotations.
Open Scope Z_scope.

Theorem C11_delete_edge : forall st u v top e st', W_dict st -> W_forest st ->
  user_delete_edge st u v top = Err e st' -> st' = st /\ e = EInvalid false.
Proof. exact delete_edge_refused_unchanged. Qed.

Theorem C11_add_edge : forall st u v force top e st', W_dict st -> W_forest st ->
  user_add_edge st u v force top = Err e st' -> st' = st.
Proof. exact add_edge_refused_unchanged. Qed.

Theorem C11_update_attrs : forall st n new e st',
  user_update_attrs st n new = Err e st' -> st' = st /\ (e = EValue \/ e = EKey).
Proof. exact update_attrs_refused_unchanged. Qed.


(* a refused swap returns the state it was given; in particular none of its four nested edits
   can be refused after an earlier one was applied *)
Theorem C11_swap : forall st n1 n2 e st', W_dict st -> W_forest st ->
  user_swap st n1 n2 = Err e st' -> st' = st.
Proof. exact EditSwap.swap_refused_unchanged. Qed.

(* at the level of the interpreter: the three ops, whatever their arguments *)
Theorem C11_step_edge_ops : forall st o st' code aux, W_dict st -> W_forest st ->
  step st o = (st', (code, aux)) ->
  match o with
  | OAddEdge _ _ _ | ODelEdge _ _ | OUpdAttrs _ _ => code <> 0 -> st' = st
  | _ => True
  end.
Proof. exact step_edge_ops_refused_unchanged. Qed.

(* non-vacuity: refusals on the fixture forest of Props/C03.v leave it untouched,
   also the forced refusal that used to remove the merge edge first (finding F-11b) *)
(* ---- UserDeleteNode: on a well-formed state every refusal (pixels without an array / outside it,
        unknown node) returns exactly the state it was given ---- *)
Theorem C11_delete_node : forall st n pxo top e st',
  W_dict st -> W_forest st -> W_trk st -> W_book st -> W_seg st ->
  user_delete_node st n pxo top = Err e st' -> st' = st.
Proof. exact EditUDN.udn_top_refused_unchanged_wseg. Qed.

(* the complete list of its errors (without W_seg one late error remains: no pixels given and the
   node's own frame missing from the array - excluded by W_seg) *)
Theorem C11_delete_node_errors : forall st n pxo top e st',
  W_dict st -> W_forest st -> W_trk st -> W_book st ->
  (is_node st n -> EditNodeBasic.px_ok st (get_pixels st n)) ->
  user_delete_node st n pxo top = Err e st' ->
  st' = st /\ (px_check st pxo = Some e \/ (px_check st pxo = None /\ e = ENetworkX /\ ~ is_node st n)).
Proof. exact EditUDN.udn_top_refused_unchanged. Qed.

(* ---- UserAddNode: every error is one of the six refusals, each raised before the first sub-edit:
        graph, array, features, history, refresh log, counters and lineage lookup are equal, the track
        lookup has the same keys and each entry is a permutation of the old one (get_track_neighbors
        sorts the entry it reads; C16 states the same for the query itself) ---- *)
Theorem C11_add_node : forall st n a px force top e st',
  W_dict st -> W_forest st -> W_trk st -> W_book st -> EditBook.rp_disjoint st -> EditUAN.attrs_ok a ->
  user_add_node st n a px force top = Err e st' ->
  EditUAN.uan_refused st n a px force = Some e /\ EditUAN.untouched st st' /\
  (EditUAN.uan_early st n a = true -> st' = st).
Proof. exact EditUAN.user_add_node_error_cases. Qed.

(* ... and conversely each refusal condition raises, whatever the state (no invariant needed) *)
Theorem C11_add_node_refusals : forall st n a px force e,
  EditUAN.uan_refused st n a px force = Some e ->
  exists st', user_add_node_core st n a px force = Err e st' /\ EditUAN.untouched st st'.
Proof. exact EditUAN.uan_refused_unchanged. Qed.

(* edge-level refusals, restated with the full invariant: the state is returned as it was *)
Theorem C11_edge_calls : forall st, WF st ->
  (forall u v top e st', user_delete_edge st u v top = Err e st' -> st' = st /\ WF st') /\
  (forall u v force top e st', user_add_edge st u v force top = Err e st' -> st' = st /\ WF st') /\
  (forall n1 n2 e st', user_swap st n1 n2 = Err e st' -> st' = st /\ WF st').
Proof. exact EditWFEdge.refused_WF. Qed.

(* ---- undo / redo: the history mechanism this property quantifies over (Tracks.undo / redo,
        ActionHistory) is, in the model, the code translated on every run from the current
        actions/action_history.py (Gen/History_gen.v); C02_timeline states what it guarantees ---- *)
Theorem C11_history_is_generated : forall st a dA,
  (let h := fst (FT.Gen.History_gen.add_new_action state action (FT.Proofs.HistoryGen.to_hist st) a st) in
   undo_stack (hist_add st a) = FT.Gen.History_gen.undo_stack _ _ h /\ redo_stack (hist_add st a) = FT.Gen.History_gen.redo_stack _ _ h) /\
  (let gr := FT.Gen.History_gen.undo state action FT.Proofs.HistoryGen.inv_total dA (FT.Proofs.HistoryGen.to_hist st) in
   match undo st with
   | Ok b s' => snd gr = b /\ undo_stack s' = FT.Gen.History_gen.undo_stack _ _ (fst gr) /\ redo_stack s' = FT.Gen.History_gen.redo_stack _ _ (fst gr)
   | Err _ _ => True
   end).
Proof. exact FT.Props.C02.C02_edit_machine_uses_generated. Qed.

(* ---- paint strokes (Proofs/EditWFPaintRollback.v): EVERY refused stroke - no array, frame out of range,
        an existing label painted into a foreign frame, the forceable refusal of the nested UserAddNode with or
        without overwritten nodes that had to be rolled back - once the caller has restored the painted pixels,
        returns a well-formed state that is observably equal to the original (nodes, edges, every registered
        node / edge feature value, the array), with undo stack, redo stack, refresh log, id counter and feature
        table literally equal and both lookups equal as sets per id.  What may differ: insertion order of
        re-created nodes / edges / lookup members, and unregistered attribute values of re-created nodes (the
        documented caveat of C01). ---- *)
Theorem C11_paint : forall st nv t idx T force e st',
  WF st -> EditBook.rp_disjoint st -> EditSessions.reg_ok st ->
  paint st nv t idx T force = Err e st' ->
  (WF st' /\ EditInverse.obs_eq st st') /\ EditFrame.aux_eq st st' /\
  (forall T0 n, (exists l, lookup T0 (trk_book (bk st')) = Some l /\ In n l) <->
                (exists l, lookup T0 (trk_book (bk st)) = Some l /\ In n l)) /\
  (forall L0 n, (exists l, lookup L0 (lin_book (bk st')) = Some l /\ In n l) <->
                (exists l, lookup L0 (lin_book (bk st)) = Some l /\ In n l)).
Proof.
  intros st nv t idx T force e st' W R G H. split; [exact (EditWFPaintRollback.paint_refused_WF st nv t idx T force e st' W R G H)|].
  split; [exact (EditWFPaintRollback.paint_refused_aux st nv t idx T force e st' H)|].
  exact (EditWFPaintRollback.paint_refused_lookups st nv t idx T force e st' W R G H).
Qed.

(* ---- the seven composite user actions this property quantifies over are, in the model, the code
        translated on every run from the current user_actions/*.py (Gen/UserActions_gen.v, translator
        harness/translate_user_actions.py, fail closed): the generated definitions equal the hand-written
        ones the theorems above are about, for all arguments (UserAddNode: on states whose track lookup
        lists only nodes, which W_book implies). ---- *)
Theorem C11_user_actions_are_generated :
  (forall st u v top, FT.Gen.UserActions_gen.gen_user_delete_edge st u v top = user_delete_edge st u v top) /\
  (forall st u v force top, FT.Gen.UserActions_gen.gen_user_add_edge st u v force top = user_add_edge st u v force top) /\
  (forall st n1 n2, FT.Gen.UserActions_gen.gen_user_swap st n1 n2 = user_swap st n1 n2) /\
  (forall st n new, FT.Gen.UserActions_gen.gen_user_update_attrs st n new = user_update_attrs st n new) /\
  (forall st n px top, FT.Gen.UserActions_gen.gen_user_delete_node st n px top = user_delete_node st n px top) /\
  (forall st n a px force top, W_book st ->
     FT.Gen.UserActions_gen.gen_user_add_node st n a px force top = user_add_node st n a px force top) /\
  (forall st nv groups T force, FT.Gen.UserActions_gen.gen_user_update_seg st nv groups T force = user_update_seg st nv groups T force).
Proof.
  split; [exact FT.Proofs.UserActionsTie.gen_user_delete_edge_eq|]. split; [exact FT.Proofs.UserActionsTie.gen_user_add_edge_eq|].
  split; [exact FT.Proofs.UserActionsTie.gen_user_swap_eq|]. split; [exact FT.Proofs.UserActionsTie.gen_user_update_attrs_eq|].
  split; [exact FT.Proofs.UserActionsTie.gen_user_delete_node_eq|].
  split; [intros st n a px force top WB; exact (FT.Proofs.UserActionsTie.gen_user_add_node_eq st n a px force top (FT.Proofs.UserActionsTie.W_book_book_nodes st WB))|].
  exact FT.Proofs.UserActionsTie.gen_user_update_seg_eq.
Qed.

(* ---- one level further down: the queries (get_track_neighbors with its in-place sort, has_track_id_at_time,
        next track / lineage id), the node-id counter, Tracks.undo / redo and the seven basic actions with their
        inverses (__init__, _apply, the annotator notifications, the track-annotator bookkeeping and relabel
        walk inlined) of the model equal the code translated on every run from data_model/solution_tracks.py,
        data_model/tracks.py, annotators/_track_annotator.py and actions/*.py (Gen/Core_gen.v; translator
        harness/translate_core.py, fail closed).  The statement is Proofs/CoreTieBundle.v: core_tie_statement.
        Not translated (hand models): the regionprops / edge annotators' update, the bulk compute paths. ---- *)
Theorem C11_core_is_generated : FT.Proofs.CoreTieBundle.core_tie_statement.
Proof. exact FT.Proofs.CoreTieBundle.core_tie. Qed.

Example C11_nonvacuous :
  fst (step fx (OAddEdge 1 6 true)) = fx /\ fst (snd (step fx (OAddEdge 1 6 true))) = 10 /\
  fst (step fx (OAddEdge 1 5 true)) = fx /\ fst (snd (step fx (OAddEdge 1 5 true))) = 10 /\
  fst (step fx (ODelEdge 2 5)) = fx /\
  fst (step fx (OUpdAttrs 2 [(KTime, VZ 7)])) = fx /\ fst (snd (step fx (OUpdAttrs 2 [(KTime, VZ 7)]))) = 12.
Proof. vm_compute. repeat split. Qed.

(* ---- whole sessions (Proofs/EditSessionsRefused.v): anywhere along ANY session of the public interface - edits
        of every kind, undo, redo, queries, accepted or refused, in any order and number - from a well-formed
        start with an empty history, a call that is refused (any exception code; strokes that are rolled back
        included) leaves a state that is observably equal to the one it was made in - nodes, edges, every
        registered feature value, the array, the feature table - and well formed.  Hypotheses: those of
        C03_sessions (three configuration facts, the documented preconditions of direct node calls at the
        moment each is made). ---- *)
Theorem C11_sessions_refused_call_changes_nothing : forall st0 ops,
  WF st0 -> EditSessions.reg_ok st0 -> EditBook.rp_disjoint st0 -> FT.Proofs.EditSessionsFull.rp_decl st0 ->
  undo_stack st0 = [] -> redo_stack st0 = [] -> FT.Proofs.EditSessionsAll.pre_along_all st0 ops ->
  forall pre o post, ops = pre ++ o :: post -> o <> OUndo -> o <> ORedo ->
  fst (snd (step (run st0 pre) o)) <> 0 ->
  EditInverse.obs_eq (run st0 pre) (fst (step (run st0 pre) o)) /\ WF (fst (step (run st0 pre) o)).
Proof. exact FT.Proofs.EditSessionsRefused.session_refused_call_changes_nothing. Qed.
Example C11_sessions_refused_nonvacuous :
  let s1 := run EditWFEdge.exs [OPaint 4 2 [3] 0 false] in
  let o := OPaint 7 2 [1; 2] 1 false in
  fst (snd (step s1 o)) = 11 /\ EditInverse.obs_eq s1 (fst (step s1 o)) /\ WF (fst (step s1 o)).
Proof. exact FT.Proofs.EditSessionsRefused.refused_nonvacuous. Qed.

Print Assumptions C11_delete_edge.
Print Assumptions C11_sessions_refused_call_changes_nothing.
Print Assumptions C11_add_edge.
Print Assumptions C11_update_attrs.
Print Assumptions C11_swap.
Print Assumptions C11_step_edge_ops.
Print Assumptions C11_delete_node.
Print Assumptions C11_delete_node_errors.
Print Assumptions C11_add_node.
Print Assumptions C11_add_node_refusals.
Print Assumptions C11_edge_calls.
Print Assumptions C11_history_is_generated.
Print Assumptions C11_paint.
Print Assumptions C11_user_actions_are_generated.
Print Assumptions C11_core_is_generated.
