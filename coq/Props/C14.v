(* Property C14 - Export followed by import is the identity.
   This file holds only the property theorems (each closed by [exact] of a lemma of
   Proofs/RoundTripProofs.v), non-vacuity examples, and Print Assumptions.

   What is proved is the reshaping logic around the three formats (Model/RoundTrip.v):
     CSV       export_to_csv rows/header  ->  CSVTracksBuilder with the explicit name map
     GEFF      split_position_attr        ->  renaming + _combine_multi_value_props
     internal  FeatureDict.dump_json      ->  FeatureDict.from_json (with __init__'s validation)
   and that track ids present on every imported node are activated, not recomputed.
   The file IO (pandas to_csv/read_csv, json dump/load) appears as an explicit oracle
   hypothesis [forall x, io x = x]; geff.write/read_to_memory is modelled by [geff_columns]
   (property k = the array of the nodes' values of k).  harness/props/c14.py checks these
   oracles and the end-to-end identity on the implementation.

   graph  = nodes (id, attribute dict) in order + edges (parent, child); an attribute value
   is the list of its tokens (scalar = singleton; position = its coordinates).
   tk / trk = tracks.features.time_key / tracklet_key;  pk = position_key (PSingle k | PMulti ks). *)
From Coq Require Import ZArith List Bool.
From FT Require Import Base.Dict Model.RoundTrip Proofs.RoundTripProofs.
From FT Require Proofs.ImportTie Proofs.ExportTie.
From FT Require Proofs.RoundTripGenerated.
Import ListNotations.
Open Scope Z_scope.

(* (a) CSV.  For every graph with distinct node ids whose nodes carry a scalar time, a scalar
   track id and a position with one coordinate per axis column (2 or 3), whose edges end in
   nodes, with at most one parent per node and no parent id -1 (the CSV's "no parent"):
   the import of the export has the same nodes in the same order with the same time, track id
   and position (per-axis or single-key storage alike), the same set of edges, none repeated. *)
Theorem C14_csv_roundtrip :
  forall (read_csv_of_to_csv : table -> table), (forall t, read_csv_of_to_csv t = t) ->
  forall g tk pk trk is3d,
  NoDup (map fst (g_nodes g)) ->
  (forall n, In n (g_nodes g) -> csv_node_ok tk pk trk is3d n) ->
  (forall u v, In (u, v) (g_edges g) -> In v (map fst (g_nodes g))) ->
  (forall u u' v, In (u, v) (g_edges g) -> In (u', v) (g_edges g) -> u = u') ->
  (forall u v, In (u, v) (g_edges g) -> u <> -1) ->
  let g' := import_csv (explicit_csv_map is3d) (read_csv_of_to_csv (export_csv g tk pk trk is3d)) in
  g_nodes g' = map (csv_projection tk pk trk) (g_nodes g) /\
  (forall u v, In (u, v) (g_edges g') <-> In (u, v) (g_edges g)) /\
  NoDup (map snd (g_edges g')).
Proof. exact csv_roundtrip_full_io. Qed.

(* (a') without the graph-shape hypotheses: the exact graph the import returns *)
Theorem C14_csv_roundtrip_exact : forall g tk pk trk is3d,
  (forall n, In n (g_nodes g) -> csv_node_ok tk pk trk is3d n) ->
  import_csv (explicit_csv_map is3d) (export_csv g tk pk trk is3d)
  = {| g_nodes := map (csv_projection tk pk trk) (g_nodes g); g_edges := csv_edges g |}.
Proof. exact csv_roundtrip. Qed.

(* (b) GEFF position: for positions of ANY length (one coordinate per axis key, distinct keys),
   reading the axis keys written by split_position_attr back in axis order gives the position
   (node by node), and _combine_multi_value_props applied to the property arrays of the exported
   graph yields the array of positions under the standard key. *)
Theorem C14_geff_position_roundtrip :
  (forall pk keys a, NoDup keys -> length (getd pk a []) = length keys ->
     flat_map (fun k => getd k (split_attrs pk keys a) []) keys = getd pk a []) /\
  (forall ns pk keys names std,
     keys <> [] -> NoDup keys -> incl keys names ->
     (forall n, In n ns -> length (getd pk (snd n) []) = length keys) ->
     let exported := map (fun n => (fst n, split_attrs pk keys (snd n))) ns in
     lookup std (combine_step (geff_columns names exported) (std, MMulti keys))
     = Some (map (fun n => map Some (getd pk (snd n) [])) ns)).
Proof. split; [exact split_combine_value | exact geff_position_roundtrip]. Qed.

(* (b') GEFF other attributes: untouched by the split; a name map with distinct targets loads
   exactly the mapped properties, each with the source's value; renaming by an injective map and
   back is the identity; a combining step leaves the other properties alone. *)
Theorem C14_geff_attrs_roundtrip :
  (forall pk keys a k, k <> pk -> ~ In k keys -> lookup k (split_attrs pk keys a) = lookup k a) /\
  (forall (flat : list (Z * Z)) (props : dict column) t s, NoDup (map fst flat) -> In (t, s) flat ->
     lookup t (rename_props flat props) = lookup s props) /\
  (forall (flat : list (Z * Z)) (props : dict column) k, ~ In k (map fst flat) ->
     lookup k (rename_props flat props) = None) /\
  (forall (flat : list (Z * Z)) (props : dict column) t s,
     NoDup (map fst flat) -> NoDup (map snd flat) -> In (t, s) flat ->
     lookup s (rename_props (map swap flat) (rename_props flat props)) = lookup s props) /\
  (forall props std keys k, k <> std -> ~ In k keys ->
     lookup k (combine_step props (std, MMulti keys)) = lookup k props).
Proof.
  split; [exact split_attrs_other|]. split; [exact (@rename_props_target column)|].
  split; [exact (@rename_props_other column)|]. split; [exact (@rename_props_back column)|].
  exact combine_step_other.
Qed.

(* (c) internal format: a FeatureDict satisfying the invariant of its constructor (time key and
   every position key are features) is returned unchanged by from_json (dump_json fd):
   features, time key, position key (None / single / per-axis), tracklet key, lineage key. *)
Theorem C14_internal_featuredict_roundtrip :
  forall (json_load_of_dump : json -> json), (forall j, json_load_of_dump j = j) ->
  forall fd, fd_valid fd = true -> from_json (json_load_of_dump (dump_json fd)) = Some fd.
Proof. exact featuredict_roundtrip_io. Qed.

(* (d) track ids: if every node carries the key, _setup_core_computed_features activates it and
   no value is recomputed, whatever the annotator would compute; this is the case for the nodes
   of an imported CSV, whose track ids are those of the exported graph; a tracklet property the
   validator accepts is kept. *)
Theorem C14_track_ids_kept :
  (forall compute ns key, (forall n, In n ns -> haskey key (snd n) = true) -> setup_feature compute ns key = ns) /\
  (forall compute g tk pk trk is3d,
     (forall n, In n (g_nodes g) -> csv_node_ok tk pk trk is3d n) ->
     let imported := g_nodes (import_csv (explicit_csv_map is3d) (export_csv g tk pk trk is3d)) in
     setup_feature compute imported K_track = imported /\
     map (fun n => (fst n, getd K_track (snd n) [])) imported = map (fun n => (fst n, getd trk (snd n) [])) (g_nodes g)) /\
  (forall props, validate_track_prop true props = props).
Proof. split; [exact setup_feature_keeps|]. split; [exact csv_track_ids_kept | exact validate_track_prop_valid]. Qed.

(* ---------- non-vacuity ---------- *)
(* 2D, per-axis position storage (y = 11, x = 12), time key 0, track key 2, an extra attribute 100.
   ids 7, 3, 12, 40, 25 (non-contiguous, unordered); 7 divides into 3 and 12; 3 -> 40 skips a frame;
   25 is isolated.  Position tokens are >= 1000. *)
Definition ex2d : graph :=
  {| g_nodes := [(7,  [(0, [0]); (11, [1001]); (12, [1002]); (2, [5]);  (3, [1])]);
                 (3,  [(0, [1]); (11, [1003]); (12, [1004]); (2, [9]);  (3, [1]); (100, [77])]);
                 (12, [(0, [1]); (11, [1005]); (12, [1001]); (2, [11]); (3, [1])]);
                 (40, [(0, [3]); (11, [1006]); (12, [1007]); (2, [9]);  (3, [1])]);
                 (25, [(0, [2]); (11, [1008]); (12, [1009]); (2, [2]);  (3, [4])])];
     g_edges := [(7, 3); (7, 12); (3, 40)] |}.

(* ---- the import pipeline of the model is, for all arguments, the code translated on every run from the current _tracks_builder.py, csv/_import.py, geff/_import.py and _validation.py (Gen/ImportPipeline_gen.v; translator harness/translate_import.py, fail closed; combinators Model/PyRt6.v; pandas dtype inference, geff's id validators and file reading stay oracle inputs).  The statements are those of the cited theorems of Proofs/ImportTie.v: whole CSV build = import_csv, whole GEFF build = import_geff, handle_segmentation = the model's; and the export side of the model is, for all arguments, the code translated on every run from the current csv/_export.py, geff/_export.py, internal_format.py and _feature_dict.py (Gen/ExportPipeline_gen.v; translator harness/translate_export.py, fail closed; combinators Model/PyRt7.v; every file write is an event carrying exactly the value handed to the writer).  The statements are those of the cited theorems of Proofs/ExportTie.v ---- *)
Theorem C14_csv_build_is_generated : ltac:(let t := type of @FT.Proofs.ImportTie.gen_csv_build_eq in exact t).
Proof. exact @FT.Proofs.ImportTie.gen_csv_build_eq. Qed.

Theorem C14_geff_build_is_generated : ltac:(let t := type of @FT.Proofs.ImportTie.gen_geff_build_eq in exact t).
Proof. exact @FT.Proofs.ImportTie.gen_geff_build_eq. Qed.

Theorem C14_export_csv_is_generated : ltac:(let t := type of @FT.Proofs.ExportTie.gen_export_to_csv_all_eq in exact t).
Proof. exact @FT.Proofs.ExportTie.gen_export_to_csv_all_eq. Qed.

Theorem C14_split_position_is_generated : ltac:(let t := type of @FT.Proofs.ExportTie.gen_split_position_attr_eq in exact t).
Proof. exact @FT.Proofs.ExportTie.gen_split_position_attr_eq. Qed.

Theorem C14_featuredict_roundtrip_is_generated : ltac:(let t := type of @FT.Proofs.ExportTie.gen_featuredict_roundtrip in exact t).
Proof. exact @FT.Proofs.ExportTie.gen_featuredict_roundtrip. Qed.


(* ---- the round trip stated for the TRANSLATED code end to end (Proofs/RoundTripGenerated.v): running the generated
        export, reading back the value carried by its write event (the IO oracle: the file read is the value
        written; pandas infers an integer dtype for the id column; geff accepts the exported track ids) and running
        the generated import build returns the original nodes, edges, times, positions and track ids - for CSV, for
        GEFF, and for the feature registry of the internal format. ---- *)
Theorem C14_generated_csv_roundtrip : ltac:(let t := type of @FT.Proofs.RoundTripGenerated.generated_csv_roundtrip in exact t).
Proof. exact @FT.Proofs.RoundTripGenerated.generated_csv_roundtrip. Qed.

Theorem C14_generated_geff_roundtrip : ltac:(let t := type of @FT.Proofs.RoundTripGenerated.generated_geff_roundtrip in exact t).
Proof. exact @FT.Proofs.RoundTripGenerated.generated_geff_roundtrip. Qed.

Theorem C14_generated_featuredict_roundtrip : ltac:(let t := type of @FT.Proofs.RoundTripGenerated.generated_featuredict_roundtrip in exact t).
Proof. exact @FT.Proofs.RoundTripGenerated.generated_featuredict_roundtrip. Qed.

Example C14_ex2d_csv :
  export_csv ex2d 0 (PMulti [11; 12]) 2 false =
    [(C_t,      [Some 0; Some 1; Some 1; Some 3; Some 2]);
     (K_y,      [Some 1001; Some 1003; Some 1005; Some 1006; Some 1008]);
     (K_x,      [Some 1002; Some 1004; Some 1001; Some 1007; Some 1009]);
     (K_id,     [Some 7; Some 3; Some 12; Some 40; Some 25]);
     (K_parent, [None; Some 7; Some 7; Some 3; None]);
     (K_track,  [Some 5; Some 9; Some 11; Some 9; Some 2])] /\
  import_csv (explicit_csv_map false) (export_csv ex2d 0 (PMulti [11; 12]) 2 false) =
    {| g_nodes := [(7,  [(K_time, [0]); (K_track, [5]);  (K_pos, [1001; 1002])]);
                   (3,  [(K_time, [1]); (K_track, [9]);  (K_pos, [1003; 1004])]);
                   (12, [(K_time, [1]); (K_track, [11]); (K_pos, [1005; 1001])]);
                   (40, [(K_time, [3]); (K_track, [9]);  (K_pos, [1006; 1007])]);
                   (25, [(K_time, [2]); (K_track, [2]);  (K_pos, [1008; 1009])])];
       g_edges := [(7, 3); (7, 12); (3, 40)] |}.
Proof. split; reflexivity. Qed.

(* the hypotheses of C14_csv_roundtrip hold for it *)
Example C14_ex2d_hyps :
  NoDup (map fst (g_nodes ex2d)) /\
  (forall n, In n (g_nodes ex2d) -> csv_node_ok 0 (PMulti [11; 12]) 2 false n) /\
  (forall u v, In (u, v) (g_edges ex2d) -> In v (map fst (g_nodes ex2d))) /\
  (forall u u' v, In (u, v) (g_edges ex2d) -> In (u', v) (g_edges ex2d) -> u = u') /\
  (forall u v, In (u, v) (g_edges ex2d) -> u <> -1).
Proof.
  split; [|split; [|split; [|split]]].
  - cbn. repeat (constructor; [cbn; intuition congruence|]). constructor.
  - intros n Hn. cbn in Hn. unfold csv_node_ok.
    repeat (destruct Hn as [Hn|Hn]; [subst n; cbn; repeat split; eexists; reflexivity|]). destruct Hn.
  - intros u v H. cbn in H. cbn. intuition congruence.
  - intros u u' v H H'. cbn in H, H'. intuition congruence.
  - intros u v H. cbn in H. intuition congruence.
Qed.

(* 3D, single-key position storage (key 1), same shape of lineage, ids 50, 8, 31, 4, 19 *)
Definition ex3d : graph :=
  {| g_nodes := [(50, [(0, [0]); (1, [1001; 1002; 1003]); (2, [1]); (3, [1])]);
                 (8,  [(0, [1]); (1, [1004; 1005; 1006]); (2, [2]); (3, [1])]);
                 (31, [(0, [1]); (1, [1007; 1001; 1008]); (2, [3]); (3, [1])]);
                 (4,  [(0, [4]); (1, [1009; 1010; 1011]); (2, [3]); (3, [1])]);
                 (19, [(0, [2]); (1, [1002; 1002; 1002]); (2, [60]); (3, [7])])];
     g_edges := [(50, 8); (50, 31); (31, 4)] |}.

Example C14_ex3d_csv :
  export_csv ex3d 0 (PSingle 1) 2 true =
    [(C_t,      [Some 0; Some 1; Some 1; Some 4; Some 2]);
     (K_z,      [Some 1001; Some 1004; Some 1007; Some 1009; Some 1002]);
     (K_y,      [Some 1002; Some 1005; Some 1001; Some 1010; Some 1002]);
     (K_x,      [Some 1003; Some 1006; Some 1008; Some 1011; Some 1002]);
     (K_id,     [Some 50; Some 8; Some 31; Some 4; Some 19]);
     (K_parent, [None; Some 50; Some 50; Some 31; None]);
     (K_track,  [Some 1; Some 2; Some 3; Some 3; Some 60])] /\
  import_csv (explicit_csv_map true) (export_csv ex3d 0 (PSingle 1) 2 true) =
    {| g_nodes := map (csv_projection 0 (PSingle 1) 2) (g_nodes ex3d); g_edges := g_edges ex3d |}.
Proof. split; reflexivity. Qed.

(* node id 0 is inside the domain (only -1 means "no parent"): 0 as a dividing root whose child 5 is in
   the middle of a linear track, with a large id as a leaf; every edge out of node 0 survives *)
Definition ex_zero : graph :=
  {| g_nodes := [(5,          [(0, [1]); (1, [1001; 1002]); (2, [2])]);
                 (0,          [(0, [0]); (1, [1003; 1004]); (2, [1])]);
                 (1000003,    [(0, [1]); (1, [1005; 1006]); (2, [3])]);
                 (2147483653, [(0, [3]); (1, [1007; 1008]); (2, [2])])];
     g_edges := [(0, 1000003); (0, 5); (5, 2147483653)] |}.
Example C14_ex_zero_csv :
  lookup K_parent (export_csv ex_zero 0 (PSingle 1) 2 false) = Some [Some 0; None; Some 0; Some 5] /\
  import_csv (explicit_csv_map false) (export_csv ex_zero 0 (PSingle 1) 2 false) =
    {| g_nodes := map (csv_projection 0 (PSingle 1) 2) (g_nodes ex_zero);
       g_edges := [(0, 5); (0, 1000003); (5, 2147483653)] |} /\
  (forall u v, In (u, v) (g_edges ex_zero) -> u <> -1).
Proof.
  split; [vm_compute; reflexivity|]. split; [vm_compute; reflexivity|].
  intros u v H. cbn in H. intuition congruence.
Qed.

(* GEFF: the 3D graph is split into z / y / x (10, 11, 12) with the other attributes in place;
   reading the properties [0; 10; 11; 12; 2; 3] and importing with the explicit map
   {time: 0, pos: [10; 11; 12], track_id: 2, lineage_id: 3} gives back every attribute *)
Example C14_ex3d_geff :
  let exported := fst (split_position_attr ex3d (PSingle 1) true) in
  snd (split_position_attr ex3d (PSingle 1) true) = [K_z; K_y; K_x] /\
  hd (0, []) (g_nodes exported) = (50, [(0, [0]); (2, [1]); (3, [1]); (K_z, [1001]); (K_y, [1002]); (K_x, [1003])]) /\
  import_geff [(K_time, MSingle 0); (K_pos, MMulti [K_z; K_y; K_x]); (K_track, MSingle 2); (K_lineage, MSingle 3)]
              (map fst (g_nodes exported)) (geff_columns [0; 10; 11; 12; 2; 3] (g_nodes exported))
  = [(50, [(0, [0]); (2, [1]);  (3, [1]); (K_pos, [1001; 1002; 1003])]);
     (8,  [(0, [1]); (2, [2]);  (3, [1]); (K_pos, [1004; 1005; 1006])]);
     (31, [(0, [1]); (2, [3]);  (3, [1]); (K_pos, [1007; 1001; 1008])]);
     (4,  [(0, [4]); (2, [3]);  (3, [1]); (K_pos, [1009; 1010; 1011])]);
     (19, [(0, [2]); (2, [60]); (3, [7]); (K_pos, [1002; 1002; 1002])])].
Proof. cbv zeta. repeat split; reflexivity. Qed.

(* GEFF, 2D per-axis storage: nothing is split, the axis names are the position keys; the extra
   attribute 100 is on one node only and is therefore not a [geff_columns] property here *)
Example C14_ex2d_geff :
  split_position_attr ex2d (PMulti [11; 12]) false = (ex2d, [11; 12]) /\
  import_geff [(K_time, MSingle 0); (K_pos, MMulti [11; 12]); (K_track, MSingle 2); (K_lineage, MSingle 3)]
              (map fst (g_nodes ex2d)) (geff_columns [11; 12; 0; 2; 3] (g_nodes ex2d))
  = [(7,  [(0, [0]); (2, [5]);  (3, [1]); (K_pos, [1001; 1002])]);
     (3,  [(0, [1]); (2, [9]);  (3, [1]); (K_pos, [1003; 1004])]);
     (12, [(0, [1]); (2, [11]); (3, [1]); (K_pos, [1005; 1001])]);
     (40, [(0, [3]); (2, [9]);  (3, [1]); (K_pos, [1006; 1007])]);
     (25, [(0, [2]); (2, [2]);  (3, [4]); (K_pos, [1008; 1009])])].
Proof. split; reflexivity. Qed.

(* internal format: per-axis position keys registered as features round-trip; the FeatureDict of the
   repaired defect (per-axis keys not registered) does not load at all *)
Definition fd_ok : feature_dict :=
  {| fd_features := [(0, JObj [(1, JAtom 5)]); (11, JObj []); (12, JObj []); (2, JObj [(1, JList [JAtom 1; JNull])]); (3, JObj [])];
     fd_time := 0; fd_pos := Some (PMulti [11; 12]); fd_tracklet := Some 2; fd_lineage := Some 3 |}.
Definition fd_bad : feature_dict :=
  {| fd_features := [(0, JObj []); (2, JObj []); (3, JObj [])];
     fd_time := 0; fd_pos := Some (PMulti [11; 12]); fd_tracklet := Some 2; fd_lineage := Some 3 |}.
Example C14_ex_featuredict :
  fd_valid fd_ok = true /\ from_json (dump_json fd_ok) = Some fd_ok /\
  fd_valid fd_bad = false /\ from_json (dump_json fd_bad) = None /\
  (* a file written before lineage keys existed: data.get gives None *)
  from_json (JObj [(J_FeatureDict, JObj [(J_features, JObj [(0, JObj [])]); (J_time_key, JAtom 0); (J_position_key, JNull)])])
  = Some {| fd_features := [(0, JObj [])]; fd_time := 0; fd_pos := None; fd_tracklet := None; fd_lineage := None |}.
Proof. repeat split; reflexivity. Qed.

(* track ids: kept when the first node has one (even unusual values such as 60);
   recomputed on EVERY node when the first node has none (here the annotator would assign 1) *)
Example C14_ex_track_ids :
  let compute := fun (_ : list (Z * attrs)) (_ : Z) => [1] in
  let imported := g_nodes (import_csv (explicit_csv_map true) (export_csv ex3d 0 (PSingle 1) 2 true)) in
  setup_feature compute imported K_track = imported /\
  setup_feature compute [(5, [(0, [0])]); (6, [(0, [1]); (2, [60])])] K_track
  = [(5, [(0, [0]); (2, [1])]); (6, [(0, [1]); (2, [1])])].
Proof. cbv zeta. split; reflexivity. Qed.

Print Assumptions C14_csv_roundtrip.
Print Assumptions C14_csv_roundtrip_exact.
Print Assumptions C14_geff_position_roundtrip.
Print Assumptions C14_geff_attrs_roundtrip.
Print Assumptions C14_internal_featuredict_roundtrip.
Print Assumptions C14_track_ids_kept.
Print Assumptions C14_csv_build_is_generated.
Print Assumptions C14_geff_build_is_generated.
Print Assumptions C14_export_csv_is_generated.
Print Assumptions C14_split_position_is_generated.
Print Assumptions C14_featuredict_roundtrip_is_generated.
Print Assumptions C14_generated_csv_roundtrip.
Print Assumptions C14_generated_geff_roundtrip.
Print Assumptions C14_generated_featuredict_roundtrip.
