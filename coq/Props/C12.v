(* Property C12 - Import reproduces the source table or graph faithfully.
   This file holds only the property theorems (each closed by [exact] of a lemma of
   Proofs/ImportTableProofs.v), non-vacuity examples, and Print Assumptions.

   Vocabulary (Model/ImportTable.v, Proofs/ImportTableProofs.v part 0):
     table            column names (interned strings) + rows of cells  CInt | CStr | CTok | CNone
     name_map         insertion-ordered dict  key -> Single col | Multi cols
     import_csv t ityp trk lin nm     tracks_from_df(df, node_name_map=nm); ityp = "the id column is integer-typed"
                                      (pandas), trk / lin = answers of geff's tracklet / lineage validators
     import_geff ids es store trk lin nm   import_from_geff on the in-memory arrays returned by geff's reader
     outcome          Ok graph | ValueErr | OtherErr (KeyError)
     id_col nm / par_col nm   the columns that "id" / "parent_id" are mapped to
     cell_of cols r c         the cell of row r in column c
     renum t ityp nm          the renumbering of ids: identity on integers when ityp, else the 1-based rank of
                              first appearance in the id column
     is_none p                p is empty or -1;   no_parent ityp p = is_none p, or p = "" (CStr 0) when the ids
                              are renumbered (not integer-typed)
     wf_map cols nm           valid clean mapping: keys and list-mapping columns pairwise distinct, id / parent_id
                              single, time mapped, pos a list of >= 2 columns (ellipse_axis_radii of the same
                              length if mapped), no empty list, every mapped column exists
     wf_table t ityp nm       distinct column names, rectangular, the MAPPED id column distinct / non-empty /
                              not -1 / not "" (integers when ityp), every parent is "no parent" or the id of
                              another row
   An empty cell of a mapped column is imported as the attribute value CNone (numpy renders it NaN, or the
   string "nan" in a string column): present, not absent.  On the GEFF path a missing value makes the
   attribute absent. *)
From Coq Require Import ZArith List Bool.
From FT Require Import Base.Dict Model.ImportTable Proofs.ImportTableProofs.
From FT Require Proofs.ImportTie.
Import ListNotations.
Open Scope Z_scope.

(* ---------- CSV / DataFrame ---------- *)

(* (1) nodes = the (renumbered) ids in row order; edges = exactly the parent links *)
Theorem C12_csv_nodes_edges : forall t ityp trk lin nm,
  wf_map (t_cols t) nm = true -> wf_table t ityp nm = true ->
  exists g, import_csv t ityp trk lin nm = Ok g /\
    map fst (g_nodes g) = map (fun r => renum t ityp nm (cell_of (t_cols t) r (id_col nm))) (t_rows t) /\
    g_edges g = flat_map (row_edge t ityp nm) (t_rows t).
Proof. exact csv_nodes_edges. Qed.

Theorem C12_csv_edges_iff : forall t ityp trk lin nm g,
  wf_map (t_cols t) nm = true -> wf_table t ityp nm = true -> import_csv t ityp trk lin nm = Ok g ->
  forall u v, In (u, v) (g_edges g) <->
    exists r, In r (t_rows t) /\ no_parent ityp (cell_of (t_cols t) r (par_col nm)) = false /\
              u = renum t ityp nm (cell_of (t_cols t) r (par_col nm)) /\
              v = renum t ityp nm (cell_of (t_cols t) r (id_col nm)).
Proof. exact csv_edges_iff. Qed.

(* (4) the renumbering is one-to-one on the ids, the identity on integer-typed ids, and (by (1)) the same
   function is applied to id and parent_id *)
Theorem C12_renumber_injective : forall t ityp nm, wf_table t ityp nm = true ->
  (forall a b, In a (column t (id_col nm)) -> In b (column t (id_col nm)) -> renum t ityp nm a = renum t ityp nm b -> a = b) /\
  (ityp = true -> forall z, renum t ityp nm (CInt z) = z).
Proof. exact renumber_injective. Qed.

(* (2) every mapped key carries the source cell (single mapping) or the list of source cells in mapped order
   (list mapping); nothing else is imported.  A track_id / lineage_id column is kept only if geff validates it. *)
Theorem C12_csv_values : forall t ityp trk lin nm g,
  wf_map (t_cols t) nm = true -> wf_table t ityp nm = true -> import_csv t ityp trk lin nm = Ok g ->
  forall i r, nth_error (t_rows t) i = Some r ->
  exists attrs, nth_error (g_nodes g) i = Some (renum t ityp nm (cell_of (t_cols t) r (id_col nm)), attrs) /\
    (forall k c, lookup k nm = Some (Single c) -> k <> k_id -> k <> k_parent ->
       (k = k_track -> trk = true) -> (k = k_lineage -> lin = true) ->
       lookup k attrs = Some (VCell (cell_of (t_cols t) r c))) /\
    (forall k cs, lookup k nm = Some (Multi cs) ->
       (k = k_track -> trk = true) -> (k = k_lineage -> lin = true) ->
       lookup k attrs = Some (VList (map (cell_of (t_cols t) r) cs))) /\
    (forall k, In k (keys attrs) -> haskey k nm = true /\ k <> k_id /\ k <> k_parent).
Proof. exact csv_values. Qed.

(* (3) malformed sources: ValueError, no graph *)
Theorem C12_csv_reject_duplicate_id : forall t ityp trk lin nm,
  wf_map (t_cols t) nm = true -> nodup_cells (column t (id_col nm)) = false ->
  import_csv t ityp trk lin nm = ValueErr.
Proof. exact csv_reject_duplicate_id. Qed.

(* a parent that is neither "no parent" nor an id - integer-typed and renumbered ids alike
   (with integer-typed ids the parent cell is an integer-valued number: int() of other cells is outside the model) *)
Theorem C12_csv_reject_unknown_parent : forall t ityp trk lin nm r,
  wf_map (t_cols t) nm = true -> In r (t_rows t) ->
  no_parent ityp (cell_of (t_cols t) r (par_col nm)) = false ->
  ~ In (cell_of (t_cols t) r (par_col nm)) (column t (id_col nm)) ->
  (ityp = true -> is_int (cell_of (t_cols t) r (par_col nm)) = true) ->
  import_csv t ityp trk lin nm = ValueErr.
Proof. exact csv_reject_unknown_parent. Qed.

Theorem C12_csv_reject_self_parent : forall t ityp trk lin nm r,
  wf_map (t_cols t) nm = true -> In r (t_rows t) ->
  cell_of (t_cols t) r (par_col nm) = cell_of (t_cols t) r (id_col nm) ->
  (ityp = true -> is_none (cell_of (t_cols t) r (par_col nm)) = false) ->
  import_csv t ityp trk lin nm = ValueErr.
Proof. exact csv_reject_self_parent. Qed.

Theorem C12_csv_reject_unmapped_required : forall t ityp trk lin nm k,
  In k [k_time; k_id; k_parent] -> lookup k nm = None -> import_csv t ityp trk lin nm = ValueErr.
Proof. exact csv_reject_unmapped_required. Qed.

Theorem C12_csv_reject_unmapped_pos : forall t ityp trk lin nm,
  lookup k_pos nm = None -> lookup k_z nm = None -> lookup k_y nm = None -> lookup k_x nm = None ->
  import_csv t ityp trk lin nm = ValueErr.
Proof. exact csv_reject_unmapped_pos. Qed.

(* a key mapped (directly or inside a list) to a column the table does not have *)
Theorem C12_csv_reject_missing_column : forall t ityp trk lin nm k s c,
  haskey k_pos nm = true -> In (k, s) nm -> In c (sources s) -> t_cols t <> [] -> ~ In c (t_cols t) ->
  import_csv t ityp trk lin nm = ValueErr.
Proof. exact csv_reject_missing_column. Qed.

(* the legacy per-axis keys become a composite pos in z, y, x order *)
Theorem C12_legacy_pos_2d : forall (nm : name_map) cy cx,
  lookup k_pos nm = None -> lookup k_z nm = None -> lookup k_y nm = Some (Single cy) -> lookup k_x nm = Some (Single cx) ->
  legacy_pos nm = set k_pos (Multi [cy; cx]) (del k_x (del k_y nm)).
Proof. exact legacy_pos_2d. Qed.
Theorem C12_legacy_pos_3d : forall (nm : name_map) cz cy cx,
  lookup k_pos nm = None -> lookup k_z nm = Some (Single cz) -> lookup k_y nm = Some (Single cy) -> lookup k_x nm = Some (Single cx) ->
  legacy_pos nm = set k_pos (Multi [cz; cy; cx]) (del k_x (del k_y (del k_z nm))).
Proof. exact legacy_pos_3d. Qed.

(* ---------- GEFF (in-memory part) ---------- *)
Theorem C12_geff_nodes_edges : forall ids es store trk lin nm,
  wf_map_core (keys store) nm = true -> multi_1d store nm -> structure_ok ids es = true ->
  exists g, import_geff ids es store trk lin nm = Ok g /\ map fst (g_nodes g) = ids /\ g_edges g = es.
Proof. exact geff_nodes_edges. Qed.

Theorem C12_geff_values : forall ids es store trk lin nm g,
  wf_map_core (keys store) nm = true -> import_geff ids es store trk lin nm = Ok g ->
  forall i x, nth_error ids i = Some x ->
  exists attrs, nth_error (g_nodes g) i = Some (x, attrs) /\
    (forall k c p, lookup k nm = Some (Single c) -> lookup c store = Some p ->
       (k = k_track -> trk = true) -> (k = k_lineage -> lin = true) -> lookup k attrs = value_at p i) /\
    (forall k c0 cs, lookup k nm = Some (Multi (c0 :: cs)) ->
       (k = k_track -> trk = true) -> (k = k_lineage -> lin = true) -> lookup k attrs = value_at (comb_of store (c0 :: cs)) i) /\
    (forall k, In k (keys attrs) -> haskey k nm = true).
Proof. exact geff_values. Qed.

(* the value of a list mapping: absent if any component is missing on the node, else the components in mapped order *)
Theorem C12_geff_list_value : forall store n i c0 cs,
  (i < n)%nat ->
  (forall c, In c (c0 :: cs) -> exists v m, lookup c store = Some {| p_vals := PS v; p_miss := m |} /\ length v = n /\
                                            (forall l, m = Some l -> length l = n)) ->
  value_at (comb_of store (c0 :: cs)) i =
    if existsb (fun c => miss_at (getd c store no_prop) i) (c0 :: cs) then None
    else Some (VList (map (fun c => cell_at (getd c store no_prop) i) (c0 :: cs))).
Proof. exact geff_list_value. Qed.

Theorem C12_geff_reject_structure : forall ids es store trk lin nm,
  wf_map_core (keys store) nm = true ->
  (~ NoDup ids \/ (exists u v, In (u, v) es /\ (~ In u ids \/ ~ In v ids)) \/ (exists u, In (u, u) es) \/ ~ NoDup es) ->
  import_geff ids es store trk lin nm = ValueErr.
Proof. exact geff_reject_structure. Qed.

Theorem C12_geff_reject_structure_any_map : forall ids es store trk lin nm g,
  (~ NoDup ids \/ (exists u v, In (u, v) es /\ (~ In u ids \/ ~ In v ids)) \/ (exists u, In (u, u) es) \/ ~ NoDup es) ->
  import_geff ids es store trk lin nm <> Ok g.
Proof. exact geff_reject_structure_any_map. Qed.

Theorem C12_geff_reject_unmapped_time : forall ids es store trk lin nm,
  lookup k_time nm = None -> import_geff ids es store trk lin nm = ValueErr.
Proof. exact geff_reject_unmapped_time. Qed.
Theorem C12_geff_reject_unmapped_pos : forall ids es store trk lin nm,
  lookup k_pos nm = None -> lookup k_z nm = None -> lookup k_y nm = None -> lookup k_x nm = None ->
  import_geff ids es store trk lin nm = ValueErr.
Proof. exact geff_reject_unmapped_pos. Qed.
Theorem C12_geff_reject_missing_prop : forall ids es store trk lin nm k s c,
  haskey k_pos nm = true -> In (k, s) nm -> In c (sources s) -> keys store <> [] -> ~ In c (keys store) ->
  import_geff ids es store trk lin nm = ValueErr.
Proof. exact geff_reject_missing_prop. Qed.

(* ---------- non-vacuity ---------- *)
(* columns cell=100 mother=101 frame=102 Y=103 X=104 a=105; keys area=110 t2=111 ycopy=112.
   String ids under renamed columns, composite 2D position, a custom column with an empty cell, the time
   column mapped twice and a position column also mapped on its own; root parents as empty and as -1. *)
Definition T1 : table := {| t_cols := [100; 101; 102; 103; 104; 105];
  t_rows := [[CStr 1; CNone;     CInt 0; CTok 1; CTok 2; CInt 7];
             [CStr 2; CStr 1;    CInt 1; CTok 3; CInt 4; CInt 8];
             [CStr 3; CStr 1;    CInt 1; CInt 5; CTok 4; CNone];
             [CStr 4; CInt (-1); CInt 0; CTok 5; CTok 6; CTok 7]] |}.
Definition M1 : name_map := [(k_id, Single 100); (k_parent, Single 101); (k_time, Single 102); (k_pos, Multi [103; 104]);
                             (110, Single 105); (111, Single 102); (112, Single 103)].
(* ---- the import pipeline of the model is, for all arguments, the code translated on every run from the current _tracks_builder.py, csv/_import.py, geff/_import.py and _validation.py (Gen/ImportPipeline_gen.v; translator harness/translate_import.py, fail closed; combinators Model/PyRt6.v; pandas dtype inference, geff's id validators and file reading stay oracle inputs).  The statements are those of the cited theorems of Proofs/ImportTie.v: whole CSV build = import_csv, whole GEFF build = import_geff, handle_segmentation = the model's ---- *)
Theorem C12_csv_build_is_generated : ltac:(let t := type of @FT.Proofs.ImportTie.gen_csv_build_eq in exact t).
Proof. exact @FT.Proofs.ImportTie.gen_csv_build_eq. Qed.

Theorem C12_geff_build_is_generated : ltac:(let t := type of @FT.Proofs.ImportTie.gen_geff_build_eq in exact t).
Proof. exact @FT.Proofs.ImportTie.gen_geff_build_eq. Qed.


Example C12_string_ids_renamed_columns :
  wf_map (t_cols T1) M1 = true /\ wf_table T1 false M1 = true /\
  import_csv T1 false true true M1 = Ok {|
    g_nodes := [(1, [(1, VCell (CInt 0)); (110, VCell (CInt 7)); (111, VCell (CInt 0)); (112, VCell (CTok 1)); (4, VList [CTok 1; CTok 2])]);
                (2, [(1, VCell (CInt 1)); (110, VCell (CInt 8)); (111, VCell (CInt 1)); (112, VCell (CTok 3)); (4, VList [CTok 3; CInt 4])]);
                (3, [(1, VCell (CInt 1)); (110, VCell CNone);    (111, VCell (CInt 1)); (112, VCell (CInt 5)); (4, VList [CInt 5; CTok 4])]);
                (4, [(1, VCell (CInt 0)); (110, VCell (CTok 7)); (111, VCell (CInt 0)); (112, VCell (CTok 5)); (4, VList [CTok 5; CTok 6])])];
    g_edges := [(1, 2); (1, 3)] |}.
Proof. vm_compute. repeat split; reflexivity. Qed.

(* standard column names, non-contiguous integer ids (kept), 3D position, a list-valued custom key (130) of the
   columns 120, 121, name map in another order; root parents as -1 and as empty *)
Definition T2 : table := {| t_cols := [k_id; k_parent; k_time; k_z; k_y; k_x; 120; 121];
  t_rows := [[CInt 7;  CInt (-1); CInt 0; CTok 1; CTok 2; CTok 3; CInt 1; CInt 2];
             [CInt 3;  CInt 7;    CInt 1; CTok 4; CTok 5; CTok 6; CInt 3; CInt 4];
             [CInt 40; CInt 7;    CInt 1; CTok 7; CTok 8; CTok 9; CInt 5; CInt 6];
             [CInt 12; CNone;     CInt 2; CInt 0; CInt 1; CInt 2; CInt 7; CNone]] |}.
Definition M2 : name_map := [(k_pos, Multi [k_z; k_y; k_x]); (k_time, Single k_time); (130, Multi [120; 121]);
                             (k_parent, Single k_parent); (k_id, Single k_id)].
Example C12_integer_ids_3d_list_valued :
  wf_map (t_cols T2) M2 = true /\ wf_table T2 true M2 = true /\
  import_csv T2 true true true M2 = Ok {|
    g_nodes := [(7,  [(1, VCell (CInt 0)); (4, VList [CTok 1; CTok 2; CTok 3]); (130, VList [CInt 1; CInt 2])]);
                (3,  [(1, VCell (CInt 1)); (4, VList [CTok 4; CTok 5; CTok 6]); (130, VList [CInt 3; CInt 4])]);
                (40, [(1, VCell (CInt 1)); (4, VList [CTok 7; CTok 8; CTok 9]); (130, VList [CInt 5; CInt 6])]);
                (12, [(1, VCell (CInt 2)); (4, VList [CInt 0; CInt 1; CInt 2]); (130, VList [CInt 7; CNone])])];
    g_edges := [(7, 3); (7, 40)] |}.
Proof. vm_compute. repeat split; reflexivity. Qed.

(* the same table with the legacy per-axis keys: same graph *)
Example C12_legacy_keys :
  import_csv T2 true true true [(k_id, Single k_id); (k_parent, Single k_parent); (k_time, Single k_time);
                                (k_x, Single k_x); (k_z, Single k_z); (k_y, Single k_y); (130, Multi [120; 121])]
  = import_csv T2 true true true [(k_id, Single k_id); (k_parent, Single k_parent); (k_time, Single k_time);
                                  (130, Multi [120; 121]); (k_pos, Multi [k_z; k_y; k_x])].
Proof. vm_compute. reflexivity. Qed.

(* malformed variants of T1 / T2 *)
Example C12_rejections :
  (* duplicate id under the renamed id column (the uniqueness check looks at the mapped column) *)
  import_csv {| t_cols := t_cols T1; t_rows := [[CStr 1; CNone; CInt 0; CTok 1; CTok 2; CInt 7];
                                                [CStr 1; CNone; CInt 1; CTok 3; CInt 4; CInt 8]] |} false true true M1 = ValueErr /\
  (* unknown parent 99, self parent 3 (integer ids) *)
  import_csv {| t_cols := t_cols T2; t_rows := [[CInt 7; CInt 99; CInt 0; CTok 1; CTok 2; CTok 3; CInt 1; CInt 2]] |} true true true M2 = ValueErr /\
  import_csv {| t_cols := t_cols T2; t_rows := [[CInt 3; CInt 3; CInt 0; CTok 1; CTok 2; CTok 3; CInt 1; CInt 2]] |} true true true M2 = ValueErr /\
  (* self parent with string ids *)
  import_csv {| t_cols := t_cols T1; t_rows := [[CStr 1; CStr 1; CInt 0; CTok 1; CTok 2; CInt 7]] |} false true true M1 = ValueErr /\
  (* time unmapped; pos mapped to a missing column 999; the table has no columns at all: KeyError, not ValueError *)
  import_csv T1 false true true (del k_time M1) = ValueErr /\
  import_csv T1 false true true (set k_pos (Multi [103; 999]) M1) = ValueErr /\
  import_csv {| t_cols := []; t_rows := [] |} false true true M1 = OtherErr 1.
Proof. vm_compute. repeat split; reflexivity. Qed.

(* repaired (commits d9b3fd7, 4d91e11): with non-integer ids a parent that is no id ("zz" = CStr 9) is rejected
   too, and "" (CStr 0) means "no parent" *)
Example C12_unknown_parent_rejected_when_renumbered :
  import_csv {| t_cols := t_cols T1; t_rows := [[CStr 1; CNone;  CInt 0; CTok 1; CTok 2; CInt 7];
                                                [CStr 2; CStr 9; CInt 1; CTok 3; CInt 4; CInt 8]] |} false true true M1 = ValueErr /\
  exists g, import_csv {| t_cols := t_cols T1; t_rows := [[CStr 1; empty_str; CInt 0; CTok 1; CTok 2; CInt 7];
                                                          [CStr 2; CStr 1;    CInt 1; CTok 3; CInt 4; CInt 8]] |} false true true M1 = Ok g
            /\ map fst (g_nodes g) = [1; 2] /\ g_edges g = [(1, 2)].
Proof. split; [vm_compute; reflexivity|]. eexists. vm_compute. repeat split; reflexivity. Qed.

(* a column literally called "id" (code 2) that is not the id column and repeats a value does not matter:
   the table is well-formed under the mapping id -> 100 and is imported *)
Example C12_raw_id_column_ignored :
  let t := {| t_cols := [100; 101; 102; 103; 104; k_id];
              t_rows := [[CStr 1; CNone; CInt 0; CTok 1; CTok 2; CInt 5]; [CStr 2; CStr 1; CInt 1; CTok 3; CTok 4; CInt 5]] |} in
  let nm := [(k_id, Single 100); (k_parent, Single 101); (k_time, Single 102); (k_pos, Multi [103; 104])] in
  wf_map (t_cols t) nm = true /\ wf_table t false nm = true /\
  exists g, import_csv t false true true nm = Ok g /\ map fst (g_nodes g) = [1; 2] /\ g_edges g = [(1, 2)].
Proof. vm_compute. repeat split; try reflexivity. eexists. repeat split; reflexivity. Qed.

(* ---------- documented domain limits (confirmed on the implementation) ---------- *)
(* integer-typed ids with an empty STRING as the parent of a root (DataFrame input): int('') raises ValueError *)
Example C12_empty_string_parent_integer_ids :
  import_csv {| t_cols := t_cols T2; t_rows := [[CInt 7; empty_str; CInt 0; CTok 1; CTok 2; CTok 3; CInt 1; CInt 2]] |} true true true M2 = ValueErr.
Proof. vm_compute. reflexivity. Qed.

(* name maps outside wf_map (NoDup (keys ++ list-mapping columns) fails):
   two list mappings sharing a column - the second key (130) is silently not imported and its other column (121)
   arrives under its raw name;  a single key NAMED like a column of a list mapping (key 6 = "y" mapped to column
   k_time, listed before pos = ["y","x"]) - pos silently takes the time column for y *)
Example C12_clash_two_list_mappings :
  exists g, import_csv {| t_cols := t_cols T2; t_rows := [[CInt 7; CInt (-1); CInt 0; CTok 1; CTok 2; CTok 3; CInt 1; CInt 2]] |}
              true true true [(k_id, Single k_id); (k_parent, Single k_parent); (k_time, Single k_time);
                              (k_pos, Multi [k_z; k_y; k_x]); (130, Multi [k_x; 121])] = Ok g
            /\ g_nodes g = [(7, [(1, VCell (CInt 0)); (121, VCell (CInt 2)); (4, VList [CTok 1; CTok 2; CTok 3])])].
Proof. eexists. vm_compute. repeat split; reflexivity. Qed.
Example C12_clash_key_named_as_list_column :
  exists g, import_csv {| t_cols := [k_id; k_parent; k_time; k_y; k_x]; t_rows := [[CInt 7; CInt (-1); CInt 0; CTok 2; CTok 3]] |}
              true true true [(k_id, Single k_id); (k_parent, Single k_parent); (k_time, Single k_time);
                              (k_y, Single k_time); (k_pos, Multi [k_y; k_x])] = Ok g
            /\ g_nodes g = [(7, [(1, VCell (CInt 0)); (4, VList [CInt 0; CTok 3])])].
Proof. eexists. vm_compute. repeat split; reflexivity. Qed.

(* GEFF: node 3 lacks the property 141 (missing mask) and so also the list-valued key 150 = [140; 141];
   props t=139, y=103, x=104; the map renames t -> time and lists pos *)
Example C12_geff_example :
  let store : props := [(139, {| p_vals := PS [CInt 0; CInt 1; CInt 1]; p_miss := None |});
                        (103, {| p_vals := PS [CTok 1; CTok 2; CTok 3]; p_miss := None |});
                        (104, {| p_vals := PS [CTok 4; CTok 5; CTok 6]; p_miss := None |});
                        (140, {| p_vals := PS [CInt 1; CInt 2; CInt 3]; p_miss := None |});
                        (141, {| p_vals := PS [CInt 0; CInt 8; CInt 9]; p_miss := Some [true; false; false] |})] in
  let nm := [(k_time, Single 139); (k_pos, Multi [103; 104]); (151, Single 141); (150, Multi [140; 141])] in
  wf_map_core (keys store) nm = true /\ structure_ok [3; 7; 9] [(3, 7); (3, 9)] = true /\
  import_geff [3; 7; 9] [(3, 7); (3, 9)] store true true nm = Ok {|
    g_nodes := [(3, [(1, VCell (CInt 0)); (4, VList [CTok 1; CTok 4])]);
                (7, [(1, VCell (CInt 1)); (151, VCell (CInt 8)); (4, VList [CTok 2; CTok 5]); (150, VList [CInt 2; CInt 8])]);
                (9, [(1, VCell (CInt 1)); (151, VCell (CInt 9)); (4, VList [CTok 3; CTok 6]); (150, VList [CInt 3; CInt 9])])];
    g_edges := [(3, 7); (3, 9)] |} /\
  import_geff [3; 7; 7] [(3, 7)] store true true nm = ValueErr /\
  import_geff [3; 7; 9] [(3, 7); (4, 9)] store true true nm = ValueErr /\
  import_geff [3; 7; 9] [(3, 7); (9, 9)] store true true nm = ValueErr.
Proof. vm_compute. repeat split; reflexivity. Qed.

Print Assumptions C12_csv_nodes_edges.
Print Assumptions C12_csv_edges_iff.
Print Assumptions C12_renumber_injective.
Print Assumptions C12_csv_values.
Print Assumptions C12_csv_reject_duplicate_id.
Print Assumptions C12_csv_reject_unknown_parent.
Print Assumptions C12_csv_reject_self_parent.
Print Assumptions C12_csv_reject_unmapped_required.
Print Assumptions C12_csv_reject_unmapped_pos.
Print Assumptions C12_csv_reject_missing_column.
Print Assumptions C12_legacy_pos_2d.
Print Assumptions C12_legacy_pos_3d.
Print Assumptions C12_geff_nodes_edges.
Print Assumptions C12_geff_values.
Print Assumptions C12_geff_list_value.
Print Assumptions C12_geff_reject_structure.
Print Assumptions C12_geff_reject_structure_any_map.
Print Assumptions C12_geff_reject_unmapped_time.
Print Assumptions C12_geff_reject_unmapped_pos.
Print Assumptions C12_geff_reject_missing_prop.
Print Assumptions C12_csv_build_is_generated.
Print Assumptions C12_geff_build_is_generated.
