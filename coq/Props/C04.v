(* Property C04 - Track ids label exactly the maximal unbranched track segments.
   This file holds only the property theorems (each closed by [exact] of a lemma of
   Proofs/EditGlobal.v or Proofs/EditTrk.v), a non-vacuity example, and Print Assumptions.

   Reading guide (definitions in Proofs/EditInv.v, Proofs/EditGlobal.v, Proofs/EditTrk.v):
   - [trk st n]: the track id attribute of node n;  [divides st u]: u has two or more successors;
     [head st n]: n is a node all of whose parents divide (a parentless node is a head);
   - [W_trk st] (local form of C04): T1 the id is constant along every edge whose source does not
     divide, T2 distinct heads carry distinct ids;
   - [same_segment st]: the reflexive-symmetric-transitive closure of the edges whose source does
     not divide, i.e. "connected without crossing an edge that leaves a dividing node";
   - [W_dict st]: the networkx dictionaries are well formed, every node carries integer time, track
     id, lineage id;  [W_forest st] (C03): forward-in-time binary forest;
   - [trk_bounded st]: no node carries an id above the recorded maximum (a conjunct of W_book, C06),
     which is what makes [next_trk] a fresh id;
   - [chain st k n]: follow the unique successor from n for at most k steps; [chain_end st k n] its
     last node;  [wconn st]: weak connectivity (same connected component);
     [reach st]: descendant-or-self.
   Proved here for the model: the local=>global theorem, the exact set of nodes UpdateTrackIDs
   relabels, and preservation of W_trk (hence of the global statement) with the frame clause by
   UserDeleteEdge and UserAddEdge (all four branches, forced variant included).
   Not proved in Coq (covered by the differential correspondence and the all-pairs segment oracle
   only): construction (_assign_tracklet_ids), the node actions, UserSwapPredecessors, undo / redo. *)
From Coq Require Import ZArith List Bool.
From FT Require Import Base.Dict Model.Edit Model.EditExec Proofs.EditInv Proofs.EditWalk Proofs.EditGlobal Proofs.EditTrk.
From FT Require Proofs.EditSwap.
From FT Require Proofs.EditNodeBasic Proofs.EditBook Proofs.EditUDN Proofs.EditUAN Proofs.EditWFEdge.
From FT Require Gen.History_gen Proofs.HistoryGen Props.C02.
From FT Require Proofs.EditBook Proofs.EditWFNode.
From FT Require Proofs.EditSessions Proofs.EditSessionsFull Proofs.EditSessionsAll Proofs.EditWFPaint Proofs.EditWFPaintRollback.
From FT Require Gen.UserActions_gen Proofs.UserActionsTie.
From FT Require Model.Toggle Proofs.EditInit.
From FT Require Proofs.CoreTieBundle.
From FT Require Model.EditCtor Proofs.EditCtor.
From FT Require Proofs.EditCtorDict.
Import ListNotations.
Open Scope Z_scope.

(* ---- local => global: same id iff same unbranched segment ---- *)
Theorem C04_global : forall st,
  W_dict st -> W_forest st -> W_trk st ->
  forall n m, is_node st n -> is_node st m -> (trk st n = trk st m <-> same_segment st n m).
Proof. exact track_global. Qed.

(* ---- UpdateTrackIDs relabels exactly the unbranched chain below its start node ---- *)
(* The walk (one global still_in_tracklet flag, level by level), started on [n] with the flag on:
   (H_chain) the chain below n carries the old id, (H_end) the chain's last node does not have exactly
   one successor, (H_first) if it has several, the first of them does not carry the old id.
   Then the relabelled list is the chain and the KTrack attribute changes on the chain only. *)
Theorem C04_walk_chain : forall oldT newT newL k f st n tn ln st' tn' ln',
  W_dict st -> W_forest st -> is_node st n ->
  (forall x, In x (chain st k n) -> trk st x = Some oldT) ->
  length (successors st (chain_end st k n)) <> 1%nat ->
  (forall c1 c2 r, successors st (chain_end st k n) = c1 :: c2 :: r -> trk st c1 <> Some oldT) ->
  walk f oldT newT newL st [n] true tn ln = Some (st', tn', ln') ->
  tn' = tn ++ chain st k n /\
  forall m, attr st' m KTrack = if memz m (chain st k n) then Some (VZ newT) else attr st m KTrack.
Proof. exact walk_chain. Qed.

Theorem C04_chain_end_last : forall st k n d, last (chain st k n) d = chain_end st k n.
Proof. exact chain_end_last. Qed.

(* with fuel = number of nodes the chain on a forest always ends where the segment ends *)
Theorem C04_chain_complete : forall st n,
  W_dict st -> W_forest st -> is_node st n ->
  length (successors st (chain_end st (length (nodes (g st))) n)) <> 1%nat.
Proof. exact chain_complete. Qed.

(* the action: new id on the chain below the start node, every other track id unchanged *)
Theorem C04_upd_track_ids : forall st start newT newL b st' oldT,
  W_dict st -> W_forest st -> trk_act (ft st) = true ->
  do_upd_track st start newT newL = Ok b st' ->
  (forall x, In x (chain st (length (nodes (g st))) start) -> trk st x = Some oldT) ->
  (forall c1 c2 r, successors st (chain_end st (length (nodes (g st))) start) = c1 :: c2 :: r -> trk st c1 <> Some oldT) ->
  (forall m, trk st' m = if memz m (chain st (length (nodes (g st))) start) then Some newT else trk st m) /\
  max_trk (bk st') = Z.max (max_trk (bk st)) newT.
Proof. exact do_upd_track_trk. Qed.

(* relabelling a tracklet with the id it already has (the lineage-only calls) changes no track id *)
Theorem C04_upd_track_same_id : forall st start T newL b st',
  W_dict st -> trk_act (ft st) = true -> do_upd_track st start T newL = Ok b st' -> trk st start = Some T ->
  (forall m, trk st' m = trk st m) /\ max_trk (bk st') = Z.max (max_trk (bk st)) T.
Proof. exact do_upd_track_same_id. Qed.

(* [trk_bounded] is a consequence of the lookup invariant of C06 *)
Theorem C04_book_bound : forall st, W_book st -> trk_bounded st.
Proof. exact W_book_trk_bounded. Qed.

(* ---- UserDeleteEdge (both branches: plain edge, division edge) ---- *)
(* an accepted UserDeleteEdge keeps the local invariant and the id bound, leaves the id of every node
   outside the connected component of u (which contains v) unchanged, and removes exactly (u,v) *)
Theorem C04_step_delete_edge : forall st u v top a st',
  W_dict st -> W_forest st -> W_trk st -> trk_bounded st -> trk_act (ft st) = true ->
  user_delete_edge st u v top = Ok a st' ->
  W_trk st' /\ trk_bounded st' /\
  (forall m, ~ wconn st u m -> trk st' m = trk st m) /\
  (forall x y, edge st' x y <-> edge st x y /\ ~ (x = u /\ y = v)).
Proof. exact user_delete_edge_trk. Qed.

(* sharper form on the core (no history tail): it always succeeds on an existing edge, and only
   descendants of u can change their id *)
Theorem C04_core_delete_edge : forall st u v,
  W_dict st -> W_forest st -> W_trk st -> trk_bounded st -> trk_act (ft st) = true -> edge st u v ->
  exists a st', user_delete_edge_core st u v = Ok a st' /\
    W_trk st' /\ trk_bounded st' /\ (forall m, ~ reach st u m -> trk st' m = trk st m).
Proof. exact ude_trk. Qed.

Theorem C04_step_delete_edge_global : forall st u v a st',
  W_dict st -> W_forest st -> W_trk st -> trk_bounded st -> trk_act (ft st) = true ->
  user_delete_edge_core st u v = Ok a st' ->
  forall n m, is_node st' n -> is_node st' m -> (trk st' n = trk st' m <-> same_segment st' n m).
Proof. exact user_delete_edge_global. Qed.

(* ---- UserAddEdge (join / new division, with or without the forced removal of v's old parent) ---- *)
Theorem C04_step_add_edge : forall st u v force top a st',
  W_dict st -> W_forest st -> W_trk st -> trk_bounded st -> trk_act (ft st) = true ->
  user_add_edge st u v force top = Ok a st' ->
  W_trk st' /\ trk_bounded st' /\
  (forall m, ~ wconn st u m -> ~ wconn st v m -> trk st' m = trk st m) /\
  (forall x y, edge st' x y <-> (edge st x y /\ y <> v) \/ (x = u /\ y = v)).
Proof. exact user_add_edge_trk. Qed.

(* sharper form on the core: the result is again well formed, and only descendants of u, of v, or of
   the old parent of v can change their id *)
Theorem C04_core_add_edge : forall st u v force a st',
  W_dict st -> W_forest st -> W_trk st -> trk_bounded st -> trk_act (ft st) = true ->
  user_add_edge_core st u v force = Ok a st' ->
  W_dict st' /\ W_forest st' /\ W_trk st' /\ trk_bounded st' /\
  (forall m, ~ reach st u m -> ~ reach st v m -> (forall p, edge st p v -> ~ reach st p m) -> trk st' m = trk st m) /\
  (forall x y, edge st' x y <-> (edge st x y /\ y <> v) \/ (x = u /\ y = v)).
Proof. exact uae_trk. Qed.

Theorem C04_step_add_edge_global : forall st u v force a st',
  W_dict st -> W_forest st -> W_trk st -> trk_bounded st -> trk_act (ft st) = true ->
  user_add_edge_core st u v force = Ok a st' ->
  forall n m, is_node st' n -> is_node st' m -> (trk st' n = trk st' m <-> same_segment st' n m).
Proof. exact user_add_edge_global. Qed.

(* ---- the frame clause for the two edge actions ---- *)
Theorem C04_frame_delete_edge : forall st u v top a st',
  W_dict st -> W_forest st -> W_trk st -> trk_bounded st -> trk_act (ft st) = true ->
  user_delete_edge st u v top = Ok a st' ->
  forall m, ~ wconn st u m -> trk st' m = trk st m.
Proof. exact user_delete_edge_frame. Qed.

Theorem C04_frame_add_edge : forall st u v force top a st',
  W_dict st -> W_forest st -> W_trk st -> trk_bounded st -> trk_act (ft st) = true ->
  user_add_edge st u v force top = Ok a st' ->
  forall m, ~ wconn st u m -> ~ wconn st v m -> trk st' m = trk st m.
Proof. exact user_add_edge_frame. Qed.

(* ---- non-vacuity: ex4 = 1 (t=0) divides into 2, 3 (t=1); 2 -> 4 (t=2); tracks 1 / 2 on {2,4} / 3 ---- *)
(* UserSwapPredecessors keeps the track-id invariant (composition of two cuts and two joins) *)
Theorem C04_step_swap : forall st n1 n2 a st', W_dict st -> W_forest st ->
  W_trk st -> EditTrk.trk_bounded st -> trk_act (ft st) = true ->
  user_swap st n1 n2 = Ok a st' -> W_trk st' /\ EditTrk.trk_bounded st'.
Proof. exact EditSwap.swap_trk. Qed.

(* ---- node actions: the six graph-and-id invariants (configuration, dictionaries, forest, track ids,
        lineage ids, lookups) are preserved together by UserDeleteNode and UserAddNode, all branches
        (dividing parent, root, bridge; splice into a skip edge, forced cuts, fresh track id) ---- *)
Theorem C04_step_delete_node : forall st n pxo top a st',
  EditUDN.GWF st -> user_delete_node st n pxo top = Ok a st' -> EditUDN.GWF st'.
Proof. exact EditUDN.udn_GWF. Qed.

(* what a node deletion may relabel: lineage ids only strictly below the deleted node, track ids only
   when the parent of the deleted node divides (the sibling then continues the parent's track) *)
Theorem C04_frame_delete_node : forall st n pxo top a st',
  EditUDN.GWF st -> user_delete_node st n pxo top = Ok a st' ->
  (forall m, m <> n -> ~ EditWalk.reach st n m -> lin st' m = lin st m) /\
  ((forall q, edge st q n -> ~ divides st q) -> forall m, m <> n -> trk st' m = trk st m).
Proof. exact EditUDN.udn_id_frame. Qed.

(* UserAddNode, for attributes inside the documented domain (integer time / track id, no
   caller-supplied lineage id) *)
Theorem C04_step_add_node : forall st n a px force top act st',
  cfg_ok st -> W_dict st -> W_forest st -> W_trk st -> W_lin st -> W_book st ->
  EditBook.rp_disjoint st -> EditUAN.attrs_ok a -> haskey KLin a = false ->
  user_add_node st n a px force top = Ok act st' ->
  cfg_ok st' /\ W_dict st' /\ W_forest st' /\ W_trk st' /\ W_lin st' /\ W_book st'.
Proof. exact EditUAN.user_add_node_keeps_all. Qed.

(* every state reachable by edge-level calls from a well-formed state is well formed (WF includes W_trk) *)
Theorem C04_run_edge_calls : forall ops st,
  forallb EditWFEdge.edge_fragment ops = true -> WF st -> WF (run st ops).
Proof. exact EditWFEdge.run_edge_WF. Qed.

(* ---- undo / redo: the history mechanism this property quantifies over (Tracks.undo / redo,
        ActionHistory) is, in the model, the code translated on every run from the current
        actions/action_history.py (Gen/History_gen.v); C02_timeline states what it guarantees ---- *)
Theorem C04_history_is_generated : forall st a dA,
  (let h := fst (FT.Gen.History_gen.add_new_action state action (FT.Proofs.HistoryGen.to_hist st) a st) in
   undo_stack (hist_add st a) = FT.Gen.History_gen.undo_stack _ _ h /\ redo_stack (hist_add st a) = FT.Gen.History_gen.redo_stack _ _ h) /\
  (let gr := FT.Gen.History_gen.undo state action FT.Proofs.HistoryGen.inv_total dA (FT.Proofs.HistoryGen.to_hist st) in
   match undo st with
   | Ok b s' => snd gr = b /\ undo_stack s' = FT.Gen.History_gen.undo_stack _ _ (fst gr) /\ redo_stack s' = FT.Gen.History_gen.redo_stack _ _ (fst gr)
   | Err _ _ => True
   end).
Proof. exact FT.Props.C02.C02_edit_machine_uses_generated. Qed.

(* ---- the same with the node calls: every state reachable from a well-formed state by any sequence, of
        any length, of UserAddNode / UserDeleteNode / edge-level calls (accepted or refused) satisfies the
        complete invariant WF, provided each UserAddNode respects its documented preconditions at the moment
        it is made (op_pre: integer time / track id, no caller-supplied lineage id, and - with a
        segmentation - a non-zero id and pixels of the node's own frame that are background; the three
        accepted-but-invariant-breaking calls of Proofs/EditWFNodeExample.v show each part is needed) ---- *)
Theorem C04_run_node_calls : forall ops st,
  forallb EditWFNode.node_fragment ops = true -> WF st -> EditBook.rp_disjoint st ->
  (forall pre o post, ops = pre ++ o :: post -> EditWFNode.op_pre (run st pre) o) ->
  WF (run st ops).
Proof. exact EditWFNode.run_node_WF. Qed.

(* ---- sessions over the WHOLE public interface (Proofs/EditSessions.v, EditSessionsFull.v, EditSessionsAll.v):
        from a well-formed state with an empty history, EVERY state reached along ANY sequence - of any
        length - of calls of the edit machine (add / delete edge, forced or not, swap, add / delete node,
        attribute update, paint / erase stroke, undo, redo, queries, fresh ids), accepted or refused,
        satisfies the complete invariant WF.  No restriction on which calls occur.  Hypotheses: three
        configuration facts that no call changes (reg_ok: every active managed feature is registered;
        rp_decl: every active regionprops key is one the annotator declares; rp_disjoint: time / track id /
        lineage id are not regionprops keys - all true by construction of Tracks, C10_registry) and the
        documented per-call preconditions at the moment each call is made (pre_along_all: for UserAddNode
        integer time / track id, no caller-supplied lineage id, and with a segmentation a non-zero id and
        background pixels of its own frame; without a segmentation a deleted / added node has its
        position attributes; strokes, edge calls, attribute updates, undo, redo have none). ---- *)
Theorem C04_sessions : forall st0 ops,
  WF st0 -> EditSessions.reg_ok st0 -> EditBook.rp_disjoint st0 -> EditSessionsFull.rp_decl st0 ->
  undo_stack st0 = [] -> redo_stack st0 = [] -> EditSessionsAll.pre_along_all st0 ops ->
  forall pre post, ops = pre ++ post -> WF (run st0 pre).
Proof. exact EditSessionsAll.session_all_reachable_WF. Qed.

(* ---- paint / erase strokes (Proofs/EditWFPaint.v): every ACCEPTED stroke on a well-formed state yields
        a well-formed state, with no precondition on the stroke (labels and nodes stay one-to-one: nodes that
        lose all pixels are deleted, with the bridge edge; partially overwritten ones are re-measured; the
        painted label exists with exactly its pixels), and reachability over edge / node / stroke calls.
        Refused strokes included, the rolled-back one too (Proofs/EditWFPaintRollback.v): the only per-call
        precondition left is that of UserAddNode; strokes have none. ---- *)
Theorem C04_paint : forall st nv t idx T force a st',
  WF st -> EditBook.rp_disjoint st -> paint st nv t idx T force = Ok a st' -> WF st'.
Proof. exact EditWFPaint.paint_WF. Qed.

Theorem C04_run_paint_calls : forall ops st,
  forallb EditWFPaint.paint_fragment ops = true -> WF st -> EditBook.rp_disjoint st -> EditSessions.reg_ok st ->
  (forall pre o post, ops = pre ++ o :: post -> EditWFNode.op_pre (run st pre) o) ->
  WF (run st ops) /\ EditBook.rp_disjoint (run st ops) /\ EditSessions.reg_ok (run st ops).
Proof. exact EditWFPaintRollback.run_paint_WF_all. Qed.

(* ---- the seven composite user actions this property quantifies over are, in the model, the code
        translated on every run from the current user_actions/*.py (Gen/UserActions_gen.v, translator
        harness/translate_user_actions.py, fail closed): the generated definitions equal the hand-written
        ones the theorems above are about, for all arguments (UserAddNode: on states whose track lookup
        lists only nodes, which W_book implies). ---- *)
Theorem C04_user_actions_are_generated :
  (forall st u v top, FT.Gen.UserActions_gen.gen_user_delete_edge st u v top = user_delete_edge st u v top) /\
  (forall st u v force top, FT.Gen.UserActions_gen.gen_user_add_edge st u v force top = user_add_edge st u v force top) /\
  (forall st n1 n2, FT.Gen.UserActions_gen.gen_user_swap st n1 n2 = user_swap st n1 n2) /\
  (forall st n new, FT.Gen.UserActions_gen.gen_user_update_attrs st n new = user_update_attrs st n new) /\
  (forall st n px top, FT.Gen.UserActions_gen.gen_user_delete_node st n px top = user_delete_node st n px top) /\
  (forall st n a px force top, W_book st ->
     FT.Gen.UserActions_gen.gen_user_add_node st n a px force top = user_add_node st n a px force top) /\
  (forall st nv groups T force, FT.Gen.UserActions_gen.gen_user_update_seg st nv groups T force = user_update_seg st nv groups T force).
Proof.
  split; [exact FT.Proofs.UserActionsTie.gen_user_delete_edge_eq|]. split; [exact FT.Proofs.UserActionsTie.gen_user_add_edge_eq|].
  split; [exact FT.Proofs.UserActionsTie.gen_user_swap_eq|]. split; [exact FT.Proofs.UserActionsTie.gen_user_update_attrs_eq|].
  split; [exact FT.Proofs.UserActionsTie.gen_user_delete_node_eq|].
  split; [intros st n a px force top WB; exact (FT.Proofs.UserActionsTie.gen_user_add_node_eq st n a px force top (FT.Proofs.UserActionsTie.W_book_book_nodes st WB))|].
  exact FT.Proofs.UserActionsTie.gen_user_update_seg_eq.
Qed.

(* ---- ... and the start state need not be assumed well formed: for every valid RAW solution (a forward-in-time
        binary forest whose nodes carry only a time - and, without a segmentation, a position -, labels and
        nodes one-to-one, the feature table of a fresh Tracks, and the networkx oracle answers being the true
        unbranched segments / weakly connected components: raw_ok), the state constructed by enabling the core
        features with recomputation (Proofs/EditInit.v: construct, following Tracks.__init__ /
        _setup_core_computed_features) is well formed, satisfies the configuration facts and has an empty
        history; hence every session over the whole interface from it stays well formed. ---- *)
Theorem C04_sessions_from_construction : forall r0 posk ctrk clin extra ops,
  EditInit.raw_ok r0 posk ctrk clin ->
  (forall k, In k extra -> In k (Toggle.available r0)) ->
  EditSessionsAll.pre_along_all (EditInit.construct r0 ctrk clin extra) ops ->
  forall pre post, ops = pre ++ post -> WF (run (EditInit.construct r0 ctrk clin extra) pre).
Proof. exact EditInit.construct_session_WF. Qed.

(* ---- one level further down: the queries (get_track_neighbors with its in-place sort, has_track_id_at_time,
        next track / lineage id), the node-id counter, Tracks.undo / redo and the seven basic actions with their
        inverses (__init__, _apply, the annotator notifications, the track-annotator bookkeeping and relabel
        walk inlined) of the model equal the code translated on every run from data_model/solution_tracks.py,
        data_model/tracks.py, annotators/_track_annotator.py and actions/*.py (Gen/Core_gen.v; translator
        harness/translate_core.py, fail closed).  The statement is Proofs/CoreTieBundle.v: core_tie_statement.
        Not translated (hand models): the regionprops / edge annotators' update, the bulk compute paths. ---- *)
Theorem C04_core_is_generated : FT.Proofs.CoreTieBundle.core_tie_statement.
Proof. exact FT.Proofs.CoreTieBundle.core_tie. Qed.

(* ---- ... and for a graph that ARRIVES with managed features of its own (an imported or reloaded solution):
        the constructor as the code runs it (Model/EditCtor.v: construct_any, following Tracks.__init__,
        _check_existing_feature, _setup_core_computed_features and TrackAnnotator.__init__ /
        _get_max_id_and_map) fills the id lookups by a scan of whatever ids the nodes carry, then ACTIVATES
        every core feature the first node carries (values taken at face value) and COMPUTES every other one.
        If the features detected on the first node are valid on all nodes (supplied_ok: supplied track ids label
        exactly the unbranched segments, supplied lineage ids exactly the components, supplied positions /
        areas are those of the current masks; nothing is assumed about a feature the first node lacks), the
        constructed state is well formed - whatever combination of supplied and computed features - and so
        is every state of every session over the whole interface from it. Proofs/EditCtorExample.v: a
        solution with non-contiguous supplied track ids and a stale partial lineage id (accepted), and one
        whose supplied ids are invalid (raw_ok holds, supplied_ok fails, the constructed state is NOT well
        formed: the hypothesis is needed).  Tie: the constructor correspondence of every run compares
        construct_any with SolutionTracks.__init__ on every generated raw solution (harness/ctor.py). ---- *)
Theorem C04_sessions_from_any_construction : forall r0 posk ctrk clin extra ops,
  EditInit.raw_ok r0 posk ctrk clin ->
  EditCtor.supplied_ok r0 ->
  (forall k, In k extra -> In k (Toggle.available r0)) ->
  EditSessionsAll.pre_along_all (FT.Model.EditCtor.construct_any r0 ctrk clin extra) ops ->
  forall pre post, ops = pre ++ post -> WF (run (FT.Model.EditCtor.construct_any r0 ctrk clin extra) pre).
Proof. exact EditCtor.construct_any_session_WF. Qed.

(* ---- ... and for tracks constructed with a PREPARED feature registry (features=<FeatureDict>: load_tracks of the
        internal save format, applications that build their own registry): Model/EditCtor.v construct_dict,
        following Tracks._activate_features_from_dict after TrackAnnotator.__init__ - the lookups are filled by the
        scan, every registered key an annotator can manage is activated, NOTHING is computed. If everything the
        registry lists is valid on the graph (EditCtorDict.dict_ok: time, track and lineage ids registered; track
        ids label the unbranched segments, lineage ids the components; every registered regionprops key stores
        the value of the node's current mask, a registered IoU the true overlap; the caller's table is otherwise
        arbitrary), the constructed state is well formed and so is every state of every session over the whole
        interface from it.  Proofs/EditCtorDictExample.v: a reloaded solution with a division, non-contiguous
        ids, positions, areas and IoUs (accepted; the first lineage id issued afterwards lies above the loaded
        maximum), and one with a stale registered area (dict_ok fails and the constructed state is NOT fresh).
        Tie: the constructor correspondence compares construct_dict with SolutionTracks(..., features=...)
        on 15 % of the generated raw solutions (harness/ctor.py, driver line CD). ---- *)
Theorem C04_sessions_from_prepared_registry : forall r0 ops,
  EditCtorDict.dict_ok r0 ->
  EditSessionsAll.pre_along_all (FT.Model.EditCtor.construct_dict r0) ops ->
  forall pre post, ops = pre ++ post -> WF (run (FT.Model.EditCtor.construct_dict r0) pre).
Proof. exact EditCtorDict.construct_dict_session_WF. Qed.

Example C04_ex4_hypotheses :
  W_dict ex4 /\ W_forest ex4 /\ W_trk ex4 /\ W_book ex4 /\ trk_bounded ex4 /\ trk_act (ft ex4) = true.
Proof. exact (conj ex4_W_dict (conj ex4_W_forest (conj ex4_W_trk (conj ex4_W_book (conj ex4_trk_bounded eq_refl))))). Qed.

(* deleting the division edge 1 -> 3: the sibling 2 and its continuation 4 adopt track 1, node 3 keeps
   track 3; then adding 1 -> 3 back: the existing child's chain {2,4} gets the fresh id 4 *)
Example C04_ex4_delete_division_edge :
  snd (step ex4 (ODelEdge 1 3)) = (0, []) /\
  map (trk (fst (step ex4 (ODelEdge 1 3)))) [1; 2; 3; 4] = [Some 1; Some 1; Some 3; Some 1] /\
  map (trk (run ex4 [ODelEdge 1 3; OAddEdge 1 3 false])) [1; 2; 3; 4] = [Some 1; Some 4; Some 3; Some 4] /\
  chain ex4 4 2 = [2; 4] /\ chain ex4 4 1 = [1].
Proof. vm_compute. repeat split; reflexivity. Qed.

(* deleting the plain edge 2 -> 4: node 4 gets the fresh id 4; joining 3 -> 4 afterwards: 4 adopts track 3 *)
Example C04_ex4_delete_plain_edge :
  map (trk (fst (step ex4 (ODelEdge 2 4)))) [1; 2; 3; 4] = [Some 1; Some 2; Some 3; Some 4] /\
  map (trk (run ex4 [ODelEdge 2 4; OAddEdge 3 4 false])) [1; 2; 3; 4] = [Some 1; Some 2; Some 3; Some 3] /\
  (* forced re-parenting in one action: 3 -> 4 with force cuts 2 -> 4 first *)
  map (trk (fst (step ex4 (OAddEdge 3 4 true)))) [1; 2; 3; 4] = [Some 1; Some 2; Some 3; Some 3].
Proof. vm_compute. repeat split; reflexivity. Qed.

Print Assumptions C04_global.
Print Assumptions C04_walk_chain.
Print Assumptions C04_chain_end_last.
Print Assumptions C04_chain_complete.
Print Assumptions C04_upd_track_ids.
Print Assumptions C04_upd_track_same_id.
Print Assumptions C04_book_bound.
Print Assumptions C04_step_delete_edge.
Print Assumptions C04_core_delete_edge.
Print Assumptions C04_step_delete_edge_global.
Print Assumptions C04_step_add_edge.
Print Assumptions C04_core_add_edge.
Print Assumptions C04_step_add_edge_global.
Print Assumptions C04_frame_delete_edge.
Print Assumptions C04_frame_add_edge.
Print Assumptions C04_step_swap.
Print Assumptions C04_step_delete_node.
Print Assumptions C04_frame_delete_node.
Print Assumptions C04_step_add_node.
Print Assumptions C04_run_edge_calls.
Print Assumptions C04_history_is_generated.
Print Assumptions C04_run_node_calls.
Print Assumptions C04_sessions.
Print Assumptions C04_paint.
Print Assumptions C04_run_paint_calls.
Print Assumptions C04_user_actions_are_generated.
Print Assumptions C04_sessions_from_construction.
Print Assumptions C04_core_is_generated.
Print Assumptions C04_sessions_from_any_construction.
Print Assumptions C04_sessions_from_prepared_registry.
