(* Property C01 - Every edit is exactly invertible (undo restores, redo re-applies).
   Only statements (each closed by [exact] of a lemma of Proofs/EditInverse.v), examples and
   Print Assumptions.

   Reading guide (definitions in Proofs/EditInverse.v, Proofs/EditInv.v, Proofs/EditBook.v):
   - [obs_eq s s'] : s' shows the same observable tracks state as s - the same node set, the same
     edge set, for every node / edge the same value of every REGISTERED node / edge feature (an
     explicit None and an absent attribute are the same observation, as for get_node_attr), the
     same segmentation array bit for bit, the same feature table.  Pointwise; no functional
     extensionality.  The id lookups and their maxima are not part of it (C06 covers them; the
     maxima are deliberately not restored by undo).
   - [inv_basic st b] : what [action.inverse()] does for the recorded basic action b - construct
     and apply the opposite action in state st.  [inv_action] : the same for groups (members
     inverted last to first).
   - every basic law below has the shape
        do_X st args = Ok b st1 ->
        exists b' st2, inv_basic st1 b = Ok b' st2 /\ obs_eq st2 st            (undo restores)
          /\ exists b'' st3, inv_basic st2 b' = Ok b'' st3 /\ obs_eq st3 st1   (redo re-applies)
   - [W_dict], [W_forest], [W_lin], [W_seg], [W_fresh], [cfg_ok], [WF] : the invariants of
     Proofs/EditInv.v;  [rp_disjoint] : time / track id / lineage id are not regionprops keys. *)
From Coq Require Import ZArith List Bool Lia.
From FT Require Import Base.Dict Model.Edit Model.EditExec Proofs.DictLemmas Proofs.EditInv Proofs.EditBook Proofs.EditInverse.
From FT Require Proofs.EditWalk.
From FT Require Gen.History_gen Proofs.HistoryGen Props.C02.
From FT Require Proofs.EditBook Proofs.EditUAN Proofs.EditInverseNode.
From FT Require Proofs.HistoryGeneric Proofs.EditSessions Proofs.EditSessionsFull Proofs.EditSessionsAll.
From FT Require Gen.UserActions_gen Proofs.UserActionsTie.
From FT Require Proofs.EditSessionsFull.
From FT Require Proofs.CoreTieBundle.
Import ListNotations.
Open Scope Z_scope.

(* ---- the observation equivalence is an equivalence; attr_obs is the documented reading ---- *)
Theorem C01_obs_eq_equivalence :
  (forall s, obs_eq s s) /\ (forall s s', obs_eq s s' -> obs_eq s' s) /\
  (forall a b c, obs_eq a b -> obs_eq b c -> obs_eq a c) /\
  (forall st n k, attr_obs st n k = match attr st n k with Some VNone => None | x => x end).
Proof. exact (conj obs_eq_refl (conj obs_eq_sym (conj obs_eq_trans attr_obs_eq))). Qed.

(* ---- the seven basic actions ---- *)

(* AddEdge of an edge that is not there yet. *)
Theorem C01_basic_add_edge : forall st u v a b st1,
  W_dict st -> has_edge st u v = false -> do_add_edge st u v a = Ok b st1 ->
  exists b' st2, inv_basic st1 b = Ok b' st2 /\ obs_eq st2 st /\
  exists b'' st3, inv_basic st2 b' = Ok b'' st3 /\ obs_eq st3 st1.
Proof. exact C01_add_edge_law. Qed.

(* ... and undoing it restores the graph, the array and the feature table literally. *)
Theorem C01_basic_add_edge_exact : forall st u v a b st1,
  W_dict st -> has_edge st u v = false -> do_add_edge st u v a = Ok b st1 ->
  exists b' st2, inv_basic st1 b = Ok b' st2 /\ (g st2 = g st /\ seg st2 = seg st /\ ft st2 = ft st) /\ bk st2 = bk st.
Proof. exact add_edge_inverse. Qed.

(* DeleteEdge (the stored IoU is the value of the current masks: W_fresh). *)
Theorem C01_basic_del_edge : forall st u v b st1,
  W_dict st -> W_fresh st -> do_del_edge st u v = Ok b st1 ->
  exists b' st2, inv_basic st1 b = Ok b' st2 /\ obs_eq st2 st /\
  exists b'' st3, inv_basic st2 b' = Ok b'' st3 /\ obs_eq st3 st1.
Proof. exact EditInverse.C01_basic_del_edge. Qed.

(* UpdateNodeAttrs: no hypothesis at all. *)
Theorem C01_basic_upd_attrs : forall st n new b st1,
  do_upd_attrs st n new = Ok b st1 ->
  exists b' st2, inv_basic st1 b = Ok b' st2 /\ obs_eq st2 st /\
  exists b'' st3, inv_basic st2 b' = Ok b'' st3 /\ obs_eq st3 st1.
Proof. exact C01_upd_attrs_law. Qed.

(* UpdateNodeSeg: the painted pixels hold what the inverse writes back (background when
   growing, the node's own label when shrinking). *)
Theorem C01_basic_upd_seg : forall st n px (added : bool) b st1,
  W_dict st -> rp_disjoint st -> W_fresh st -> W_seg st -> is_node st n ->
  (forall sg i, seg st = Some sg -> (i < length (frame_of sg (fst px)))%nat -> In (Z.of_nat i) (snd px) ->
     label_at sg (fst px) i = if added then 0 else n) ->
  do_upd_seg st n px added = Ok b st1 ->
  exists b' st2, inv_basic st1 b = Ok b' st2 /\ obs_eq st2 st /\
  exists b'' st3, inv_basic st2 b' = Ok b'' st3 /\ obs_eq st3 st1.
Proof. exact EditInverse.C01_basic_upd_seg. Qed.

(* AddNode: a new id; [add_node_px_ok]: with a segmentation, the attributes give an integer time
   t inside the array, no pixel of frame t carries the label n, and the pixels passed are in
   frame t and are background.  The attribute dictionary has distinct keys and integer time,
   track id and lineage id; without a segmentation it has registered, non-None positions. *)
Theorem C01_basic_add_node : forall st n a px b st1 t0 T L,
  W_dict st -> cfg_ok st -> rp_disjoint st -> ~ is_node st n -> add_node_px_ok st n a px ->
  NoDup (keys a) -> lookup KTime a = Some (VZ t0) -> lookup KTrack a = Some (VZ T) -> lookup KLin a = Some (VZ L) ->
  (seg st = None -> forall k, In k (pos_keys (ft st)) -> In k (reg_node (ft st)) /\ exists v, lookup k a = Some v /\ v <> VNone) ->
  do_add_node st n a px = Ok b st1 ->
  exists b' st2, inv_basic st1 b = Ok b' st2 /\ obs_eq st2 st /\
  exists b'' st3, inv_basic st2 b' = Ok b'' st3 /\ obs_eq st3 st1.
Proof. exact C01_add_node_law. Qed.

(* ... and undoing it restores graph and array literally (fewer hypotheses). *)
Theorem C01_basic_add_node_exact : forall st n a px b st1,
  W_dict st -> ~ is_node st n -> rp_disjoint st -> add_node_px_ok st n a px ->
  do_add_node st n a px = Ok b st1 ->
  exists b' st2, inv_basic st1 b = Ok b' st2 /\ (g st2 = g st /\ seg st2 = seg st /\ ft st2 = ft st).
Proof. exact add_node_inverse. Qed.

(* DeleteNode: no incident edges; pixels = the node's own pixels ([del_node_px_exact]: either
   none are passed - then get_pixels is used - or exactly the node's mask in its frame);
   without a segmentation the node has registered, non-None positions ([pos_ok]). *)
Theorem C01_basic_del_node : forall st n pxo b st1,
  W_dict st -> cfg_ok st -> rp_disjoint st -> W_fresh st -> W_seg st ->
  isolated st n -> del_node_px_exact st n pxo -> pos_ok st n ->
  do_del_node st n pxo = Ok b st1 ->
  exists b' st2, inv_basic st1 b = Ok b' st2 /\ obs_eq st2 st /\
  exists b'' st3, inv_basic st2 b' = Ok b'' st3 /\ obs_eq st3 st1.
Proof. exact EditInverse.C01_basic_del_node. Qed.

(* UpdateTrackIDs: the new track id is not found downstream of the start node (unless it is the
   old id itself). *)
Theorem C01_basic_upd_track : forall st start newT newL b st1,
  cfg_ok st -> W_dict st -> W_forest st -> W_lin st ->
  (forall oldT m, trk st start = Some oldT -> EditWalk.reach st start m -> trk st m = Some newT -> newT = oldT) ->
  do_upd_track st start newT newL = Ok b st1 ->
  exists b' st2, inv_basic st1 b = Ok b' st2 /\ obs_eq st2 st /\
  exists b'' st3, inv_basic st2 b' = Ok b'' st3 /\ obs_eq st3 st1.
Proof. exact EditInverse.C01_basic_upd_track. Qed.

(* The same with the weakest hypotheses the proof uses: the lineage id is uniform downstream of
   the start node, and the node at which the relabelling walk stops (the first node in visiting
   order that does not carry the old id) does not carry the new id.  Undo then restores every
   attribute of every node, registered or not. *)
Theorem C01_basic_upd_track_exact : forall st start newT newL b st1,
  cfg_ok st -> W_dict st -> W_forest st -> lin_down st start -> upd_track_pre st start newT ->
  do_upd_track st start newT newL = Ok b st1 ->
  exists b' st2, inv_basic st1 b = Ok b' st2 /\
    (node_ids st2 = node_ids st /\ succs (g st2) = succs (g st) /\ (forall m k, attr st2 m k = attr st m k) /\
     seg st2 = seg st /\ ft st2 = ft st).
Proof. exact upd_track_inverse. Qed.

(* ---- every basic action, and hence every inverse, reads and writes only graph, array and
        feature table: the lookups, history and counters never influence them ---- *)
Theorem C01_inverse_reads_core_only : forall s s' b,
  (g s' = g s /\ seg s' = seg s /\ ft s' = ft s) ->
  match inv_basic s b, inv_basic s' b with
  | Ok a t, Ok a' t' => a = a' /\ (g t' = g t /\ seg t' = seg t /\ ft t' = ft t)
  | Err e t, Err e' t' => e = e' /\ (g t' = g t /\ seg t' = seg t /\ ft t' = ft t)
  | _, _ => False
  end.
Proof. exact inv_basic_core. Qed.

(* ---- groups: the composition principle ----
   [ConsN I n a x y]: a is a recorded transition from x to y that can be undone, redone, undone ...
   n times in a row, each time from ANY state that satisfies I and is observably equal to the
   state the (un)doing starts from, landing in a state that satisfies I and is observably equal to
   the other end.  A chain of such members is such a group. *)
Theorem C01_group : forall (I : state -> Prop) n l x y,
  Chain (ConsN I n) l x y -> ConsN I n (AGroup l) x y.
Proof. exact group_ConsN. Qed.

(* [ConsN (S n)] unfolded once, for the reader *)
Theorem C01_group_reading : forall (I : state -> Prop) n a x y,
  ConsN I (S n) a x y <->
  (forall s, I s -> obs_eq s y -> exists b s', inv_action s a = Ok b s' /\ I s' /\ obs_eq s' x /\ ConsN I n b y x).
Proof. intros I n a x y. exact (iff_refl _). Qed.

(* The hypotheses [Tr_inv] and [Tr_src] of C02_timeline, instantiated for the edit machine:
   Tr := "both ends satisfy I and the transition is invertible any number of times",
   eqv := observational equality (between states that agree on I),
   inv := inv_action made total as in Proofs/HistoryGen.v. *)
Theorem C01_timeline_hypotheses : forall (I : state -> Prop),
  (forall s, eqvI I s s) /\ (forall a b c, eqvI I a b -> eqvI I b c -> eqvI I a c) /\
  (forall a x y s, TrI I a x y -> eqvI I s y -> eqvI I (fst (inv_tot s a)) x /\ TrI I (snd (inv_tot s a)) y x) /\
  (forall a x x' y, TrI I a x y -> eqvI I x x' -> TrI I a x' y).
Proof. intros I. exact (conj (eqvI_refl I) (conj (eqvI_trans I) (conj (TrI_inv I) (TrI_src I)))). Qed.

(* ---- composite user actions, on well-formed states (WF: all invariants of Proofs/EditInv.v) ----
   UserDeleteEdge (both the plain and the division case), UserAddEdge (join / new division, with
   and without the forced removal of the merge edge), UserUpdateNodeAttrs: applying the action
   and inverting the recorded group restores the observable state.  (The core functions are the
   user actions without the history push and the refresh signal, which obs_eq does not look at.) *)
Theorem C01_user_delete_edge : forall st u v a st',
  WF st -> user_delete_edge_core st u v = Ok a st' ->
  exists b st2, inv_action st' a = Ok b st2 /\ obs_eq st2 st.
Proof. exact EditInverse.C01_user_delete_edge. Qed.

Theorem C01_user_add_edge : forall st u v force a st',
  WF st -> user_add_edge_core st u v force = Ok a st' ->
  exists b st2, inv_action st' a = Ok b st2 /\ obs_eq st2 st.
Proof. exact EditInverse.C01_user_add_edge. Qed.

Theorem C01_user_update_attrs : forall st n new a st1,
  user_update_attrs_core st n new = Ok a st1 ->
  exists b st2, inv_action st1 a = Ok b st2 /\ obs_eq st2 st.
Proof. exact EditInverse.C01_user_update_attrs. Qed.

(* the track-id fact behind the UpdateTrackIDs precondition inside these user actions: on a
   well-formed state the track id of a dividing node does not occur below it *)
Theorem C01_trk_below_division : forall st u c x,
  W_dict st -> W_forest st -> W_trk st -> edge st u c -> divides st u -> EditWalk.reach st c x -> trk st x <> trk st u.
Proof. exact trk_below_division. Qed.

(* ---- example: 3 nodes, 3 frames of 2x2 pixels ----
     frame 0: 1 1 / 0 0     frame 1: 2 2 / 0 0     frame 2: 3 0 / 0 0      edge 2 -> 3 *)
Definition fx : feats :=
  {| reg_node := [KTime; KPos; KTrack; KLin; KArea]; reg_edge := [KIou]; pos_keys := [KPos];
     rp_all := [KPos; KArea; KEll; KCirc; KPerim]; rp_act := [KPos; KArea];
     iou_avail := true; iou_act := true; trk_act := true; lin_act := true |}.
Definition nd (t T L : Z) (m : list Z) : attrs :=
  [(KTime, VZ t); (KPos, VRp m); (KTrack, VZ T); (KLin, VZ L); (KArea, VRp m)].
Definition ex0 : state :=
  mk_state [(1, nd 0 1 1 [0;1]); (2, nd 1 2 2 [0;1]); (3, nd 2 2 2 [0])]
           [(2, 3, [(KIou, VIou 1 2)])]
           (Some [[1;1;0;0]; [2;2;0;0]; [3;0;0;0]]) fx
           [(1, [1]); (2, [2;3])] [(1, [1]); (2, [2;3])] 2 2 4.
(* everything obs_eq looks at, over a universe of ids that covers the example *)
Definition observe (st : state) :=
  let ids := [1;2;3;4] in
  (map (fun n => (has_node st n, map (attr_obs st n) (reg_node (ft st)))) ids,
   map (fun u => map (fun v => (has_edge st u v, map (eattr_obs st u v) (reg_edge (ft st)))) ids) ids,
   seg st, ft st).

(* UserAddEdge 1->2 (a join: relabels 2 and 3 to track 1 / lineage 1, adds the edge), undo, redo;
   then a paint stroke growing node 3 by two pixels, undo; then erasing node 2 altogether
   (deletes two edges, bridges 1->3, deletes the node), undo.  Every undo shows the state before
   the edit, the redo shows the state after it. *)
(* ---- undo / redo: the history mechanism this property quantifies over (Tracks.undo / redo,
        ActionHistory) is, in the model, the code translated on every run from the current
        actions/action_history.py (Gen/History_gen.v); C02_timeline states what it guarantees ---- *)
Theorem C01_history_is_generated : forall st a dA,
  (let h := fst (FT.Gen.History_gen.add_new_action state action (FT.Proofs.HistoryGen.to_hist st) a st) in
   undo_stack (hist_add st a) = FT.Gen.History_gen.undo_stack _ _ h /\ redo_stack (hist_add st a) = FT.Gen.History_gen.redo_stack _ _ h) /\
  (let gr := FT.Gen.History_gen.undo state action FT.Proofs.HistoryGen.inv_total dA (FT.Proofs.HistoryGen.to_hist st) in
   match undo st with
   | Ok b s' => snd gr = b /\ undo_stack s' = FT.Gen.History_gen.undo_stack _ _ (fst gr) /\ redo_stack s' = FT.Gen.History_gen.redo_stack _ _ (fst gr)
   | Err _ _ => True
   end).
Proof. exact FT.Props.C02.C02_edit_machine_uses_generated. Qed.

(* ---- the remaining composites (Proofs/EditInverseNode.v).  rp_disjoint: time / track id / lineage id
        are not regionprops keys.  pos_ok: without a segmentation the deleted node carries registered,
        non-None positions (AddNode refuses to re-create a node with neither pixels nor position).
        attrs_ok: distinct keys, integer time / track / lineage entries.  add_node_px_ok: the documented
        precondition of AddNode (the node id labels nothing yet, the pixels lie in the node's frame and
        are background). ---- *)
Theorem C01_user_swap : forall st n1 n2 a st',
  WF st -> user_swap_core st n1 n2 = Ok a st' ->
  exists b st2, inv_action st' a = Ok b st2 /\ obs_eq st2 st.
Proof. exact EditInverseNode.C01_user_swap. Qed.

Theorem C01_user_delete_node : forall st n a st',
  WF st -> EditBook.rp_disjoint st -> pos_ok st n ->
  user_delete_node_core st n None = Ok a st' ->
  exists b st2, inv_action st' a = Ok b st2 /\ obs_eq st2 st.
Proof. exact EditInverseNode.C01_user_delete_node. Qed.

Theorem C01_user_add_node : forall st n a px force act st',
  WF st -> EditBook.rp_disjoint st -> EditUAN.attrs_ok a -> add_node_px_ok st n a px ->
  user_add_node_core st n a px force = Ok act st' ->
  exists b st2, inv_action st' act = Ok b st2 /\ obs_eq st2 st.
Proof. exact EditInverseNode.C01_user_add_node. Qed.

(* ---- "inverting the inverse reproduces the post-edit state", any number of times, and robustly:
        [TrI W_dict a x y] = both ends have well-formed dictionaries and a can be undone, redone, undone ...
        n times for every n, each time from ANY state with well-formed dictionaries that is observably equal
        to the expected one, landing observably on the other end.  This is the hypothesis [Tr] of the
        timeline theorem C02_timeline (see C02_edit_machine_timeline). ---- *)
Theorem C01_consistent_delete_edge : forall st u v a st',
  WF st -> user_delete_edge_core st u v = Ok a st' -> TrI W_dict a st st'.
Proof. exact EditInverseNode.C01_user_delete_edge_consistent. Qed.

Theorem C01_consistent_add_edge : forall st u v force a st',
  WF st -> user_add_edge_core st u v force = Ok a st' -> TrI W_dict a st st'.
Proof. exact EditInverseNode.C01_user_add_edge_consistent. Qed.

Theorem C01_consistent_swap : forall st n1 n2 a st',
  WF st -> user_swap_core st n1 n2 = Ok a st' -> TrI W_dict a st st'.
Proof. exact EditInverseNode.C01_user_swap_consistent. Qed.

Theorem C01_consistent_delete_node : forall st n pxo a st',
  WF st -> EditBook.rp_disjoint st -> pos_ok st n -> del_node_px_exact st n pxo ->
  user_delete_node_core st n pxo = Ok a st' -> TrI W_dict a st st'.
Proof. exact EditInverseNode.C01_user_delete_node_consistent. Qed.

Theorem C01_consistent_add_node : forall st n a px force act st',
  WF st -> EditBook.rp_disjoint st -> EditUAN.attrs_ok a -> add_node_px_ok st n a px ->
  (seg st <> None -> n <> 0) ->
  (seg st = None -> forall k0, In k0 (pos_keys (ft st)) ->
     In k0 (reg_node (ft st)) /\ exists v, lookup k0 a = Some v /\ v <> VNone) ->
  user_add_node_core st n a px force = Ok act st' -> TrI W_dict act st st'.
Proof. exact EditInverseNode.C01_user_add_node_consistent. Qed.

(* ---- whole sessions: with undo / redo interleaved with ANY edits of the public interface (edge, swap, node,
        attribute and stroke edits) in any order and number, the
        state after each call is observably the state under the cursor of the list+cursor timeline - every
        undo shows the state before the undone edit, every redo the state after it, also after new edits
        were made in between (statement and hypotheses: C02_sessions_timeline). ---- *)
Theorem C01_sessions : forall st0 ops,
  WF st0 -> EditSessions.reg_ok st0 -> EditBook.rp_disjoint st0 -> EditSessionsFull.rp_decl st0 ->
  undo_stack st0 = [] -> redo_stack st0 = [] -> EditSessionsAll.pre_along_all st0 ops ->
  forall dS,
  let t := EditSessionsFull.tl_run_full st0 {| HistoryGeneric.tl := [st0]; HistoryGeneric.c := 0 |} ops in
  (HistoryGeneric.c state t < length (HistoryGeneric.tl state t))%nat /\
  obs_eq (run st0 ops) (nth (HistoryGeneric.c state t) (HistoryGeneric.tl state t) dS) /\
  Forall WF (HistoryGeneric.tl state t) /\
  (exists ext, HistoryGeneric.tl state t = st0 :: ext).
Proof. exact EditSessionsAll.session_all_timeline. Qed.

(* ---- the seven composite user actions this property quantifies over are, in the model, the code
        translated on every run from the current user_actions/*.py (Gen/UserActions_gen.v, translator
        harness/translate_user_actions.py, fail closed): the generated definitions equal the hand-written
        ones the theorems above are about, for all arguments (UserAddNode: on states whose track lookup
        lists only nodes, which W_book implies). ---- *)
Theorem C01_user_actions_are_generated :
  (forall st u v top, FT.Gen.UserActions_gen.gen_user_delete_edge st u v top = user_delete_edge st u v top) /\
  (forall st u v force top, FT.Gen.UserActions_gen.gen_user_add_edge st u v force top = user_add_edge st u v force top) /\
  (forall st n1 n2, FT.Gen.UserActions_gen.gen_user_swap st n1 n2 = user_swap st n1 n2) /\
  (forall st n new, FT.Gen.UserActions_gen.gen_user_update_attrs st n new = user_update_attrs st n new) /\
  (forall st n px top, FT.Gen.UserActions_gen.gen_user_delete_node st n px top = user_delete_node st n px top) /\
  (forall st n a px force top, W_book st ->
     FT.Gen.UserActions_gen.gen_user_add_node st n a px force top = user_add_node st n a px force top) /\
  (forall st nv groups T force, FT.Gen.UserActions_gen.gen_user_update_seg st nv groups T force = user_update_seg st nv groups T force).
Proof.
  split; [exact FT.Proofs.UserActionsTie.gen_user_delete_edge_eq|]. split; [exact FT.Proofs.UserActionsTie.gen_user_add_edge_eq|].
  split; [exact FT.Proofs.UserActionsTie.gen_user_swap_eq|]. split; [exact FT.Proofs.UserActionsTie.gen_user_update_attrs_eq|].
  split; [exact FT.Proofs.UserActionsTie.gen_user_delete_node_eq|].
  split; [intros st n a px force top WB; exact (FT.Proofs.UserActionsTie.gen_user_add_node_eq st n a px force top (FT.Proofs.UserActionsTie.W_book_book_nodes st WB))|].
  exact FT.Proofs.UserActionsTie.gen_user_update_seg_eq.
Qed.

(* ---- strokes and attribute updates in the same robust form, with the stronger invariant SI (dictionaries,
        lookups, configuration): [TrW a x y] = both ends are well formed and a can be undone / redone any
        number of times from any SI-state observably equal to the expected end (EditSessionsFull.v; for the
        stroke the recorded group is replayed against virtual arrays in which the pixels still to be handled
        carry their old labels).  No precondition on the stroke. ---- *)
Theorem C01_consistent_paint : forall st nv t idx T force a st',
  WF st -> EditSessions.reg_ok st -> EditBook.rp_disjoint st ->
  paint st nv t idx T force = Ok a st' -> EditSessions.TrW a st st'.
Proof. exact EditSessionsFull.C01_TrW_paint. Qed.

Theorem C01_consistent_update_attrs : forall st n new a st',
  WF st -> EditSessions.reg_ok st -> EditBook.rp_disjoint st -> EditSessionsFull.rp_decl st ->
  user_update_attrs_core st n new = Ok a st' -> EditSessions.TrW a st st'.
Proof. exact EditSessionsFull.C01_TrW_update_attrs. Qed.

(* ---- one level further down: the queries (get_track_neighbors with its in-place sort, has_track_id_at_time,
        next track / lineage id), the node-id counter, Tracks.undo / redo and the seven basic actions with their
        inverses (__init__, _apply, the annotator notifications, the track-annotator bookkeeping and relabel
        walk inlined) of the model equal the code translated on every run from data_model/solution_tracks.py,
        data_model/tracks.py, annotators/_track_annotator.py and actions/*.py (Gen/Core_gen.v; translator
        harness/translate_core.py, fail closed).  The statement is Proofs/CoreTieBundle.v: core_tie_statement.
        Not translated (hand models): the regionprops / edge annotators' update, the bulk compute paths. ---- *)
Theorem C01_core_is_generated : FT.Proofs.CoreTieBundle.core_tie_statement.
Proof. exact FT.Proofs.CoreTieBundle.core_tie. Qed.

Example C01_example_run :
  let s1 := step ex0 (OAddEdge 1 2 false) in
  let s2 := step (fst s1) OUndo in
  let s3 := step (fst s2) ORedo in
  let s4 := step (fst s3) (OPaint 3 2 [1;2] 2 false) in
  let s5 := step (fst s4) OUndo in
  let s6 := step (fst s5) (OPaint 0 1 [0;1] 2 false) in
  let s7 := step (fst s6) OUndo in
  map snd [s1; s2; s3; s4; s5; s6; s7] = [(0, []); (1, []); (1, []); (0, []); (1, []); (0, []); (1, [])] /\
  observe (fst s2) = observe ex0 /\ observe (fst s3) = observe (fst s1) /\
  observe (fst s5) = observe (fst s3) /\ observe (fst s7) = observe (fst s5) /\
  g (fst s2) = g ex0 /\
  has_edge (fst s1) 1 2 = true /\ attr (fst s1) 3 KTrack = Some (VZ 1) /\
  seg (fst s4) = Some [[1;1;0;0]; [2;2;0;0]; [3;3;3;0]] /\
  has_node (fst s6) 2 = false /\ has_edge (fst s6) 1 3 = true /\ seg (fst s6) = Some [[1;1;0;0]; [0;0;0;0]; [3;0;0;0]] /\
  undo_stack (fst s1) = [AGroup [ABasic (BUpdTrack 2 2 1 (Some 2) (Some 1)); ABasic (BAddEdge 1 2 [])]].
Proof. vm_compute. repeat split. Qed.

(* the hypotheses of the AddEdge law hold of the example state, and the law's conclusion on it *)
Lemma ex0_W_dict : W_dict ex0.
Proof.
  assert (Hn : forall n, is_node ex0 n <-> n = 1 \/ n = 2 \/ n = 3) by (intros n; unfold is_node; cbn; intuition).
  constructor.
  - cbn. repeat (constructor; [cbn; intuition congruence|]). constructor.
  - cbn. repeat (constructor; [cbn; intuition congruence|]). constructor.
  - intros n. rewrite haskey_keys, Hn. cbn. intuition.
  - intros u. unfold successors, adj, getd. cbn.
    destruct (u =? 1); [constructor|]. destruct (u =? 2); [repeat constructor; intros []|]. destruct (u =? 3); constructor.
  - intros u v. rewrite !Hn. unfold edge, has_edge, adj, getd, haskey. cbn.
    destruct (Z.eqb_spec u 1); [discriminate|]. destruct (Z.eqb_spec u 2) as [->|]; cbn.
    + destruct (Z.eqb_spec v 3) as [->|]; [auto|discriminate].
    + destruct (u =? 3); discriminate.
  - intros n H. apply Hn in H. destruct H as [->|[->| ->]]; eexists; reflexivity.
  - intros n H. apply Hn in H. destruct H as [->|[->| ->]]; eexists; reflexivity.
  - intros n H. apply Hn in H. destruct H as [->|[->| ->]]; eexists; reflexivity.
  - intros n. unfold node_attrs, getd. cbn.
    destruct (n =? 1); [|destruct (n =? 2); [|destruct (n =? 3); [|constructor]]];
      vm_compute; repeat (constructor; [cbn; intuition congruence|]); constructor.
Qed.

Example C01_nonvacuous_add_edge :
  W_dict ex0 /\ has_edge ex0 1 2 = false /\
  (exists b st1, do_add_edge ex0 1 2 [] = Ok b st1 /\ b = BAddEdge 1 2 [] /\
     lookup KIou (edge_attrs st1 1 2) = Some (VIou 2 2) /\
     exists b' st2, inv_basic st1 b = Ok b' st2 /\ obs_eq st2 ex0 /\
     exists b'' st3, inv_basic st2 b' = Ok b'' st3 /\ obs_eq st3 st1).
Proof.
  split; [exact ex0_W_dict|]. split; [reflexivity|].
  eexists _, _. split; [reflexivity|]. split; [reflexivity|]. split; [reflexivity|].
  exact (C01_add_edge_law ex0 1 2 [] _ _ ex0_W_dict eq_refl eq_refl).
Qed.

(* the pixel precondition of AddNode is satisfiable: node 4 at time 2 painted on pixel 3 *)
Example C01_nonvacuous_add_node_px :
  add_node_px_ok ex0 4 (nd 2 3 3 [3]) (Some (2, [3])) /\ ~ is_node ex0 4 /\
  match do_add_node ex0 4 (nd 2 3 3 [3]) (Some (2, [3])) with
  | Ok b st1 => b = BAddNode 4 (nd 2 3 3 [3]) (Some (2, [3])) /\ seg st1 = Some [[1;1;0;0]; [2;2;0;0]; [3;0;0;4]]
  | Err _ _ => False end.
Proof.
  split; [|split].
  - intros sg Hs. injection Hs as <-. exists 2. split.
    + intros v Hin. vm_compute in Hin. intuition congruence.
    + split; [reflexivity|]. split.
      * intros j Hj. change (j < 4)%nat in Hj. do 4 (destruct j as [|j]; [cbn; discriminate|]). exfalso. lia.
      * split; [reflexivity|]. intros j Hj Hin. cbn in Hin. destruct Hin as [E|[]].
        assert (j = 3%nat) by (apply Nat2Z.inj; exact (eq_sym E)). subst j. reflexivity.
  - unfold is_node. cbn. intuition congruence.
  - vm_compute. split; reflexivity.
Qed.

(* the preconditions are necessary: without them the model (like the implementation) does not
   restore the state.  (1) AddNode without pixels at a time outside the array: the inverse raises
   IndexError (code 16);  (2) UpdateTrackIDs reusing an id found downstream (chain 1->2->3 with
   track ids 1/2/2, node 1 relabelled to 2): the inverse relabels all three nodes;  (3) AddEdge
   over an existing edge: the inverse removes the edge;  (4) UpdateNodeSeg "shrinking" node 2 by a
   pixel that was background: the inverse paints it. *)
Definition ex1 : state :=
  mk_state [(1, nd 0 1 1 [0;1]); (2, nd 1 2 1 [0;1]); (3, nd 2 2 1 [0])]
           [(1, 2, [(KIou, VIou 2 2)]); (2, 3, [(KIou, VIou 1 2)])]
           (Some [[1;1;0;0]; [2;2;0;0]; [3;0;0;0]]) fx
           [(1, [1]); (2, [2;3])] [(1, [1;2;3])] 2 1 4.
Example C01_preconditions_necessary :
  let undo_of (r : res basic) := match r with Ok b s => inv_basic s b | Err e s => Err e s end in
  let st_of (r : res basic) := match r with Ok _ s => s | Err _ s => s end in
  let code (r : res basic) := match r with Ok _ _ => 0 | Err e _ => ecode e end in
  (code (do_add_node ex0 4 (nd 7 3 3 []) None) = 0 /\ code (undo_of (do_add_node ex0 4 (nd 7 3 3 []) None)) = 16) /\
  (map (fun n => attr ex1 n KTrack) [1;2;3] = [Some (VZ 1); Some (VZ 2); Some (VZ 2)] /\
   map (fun n => attr (st_of (undo_of (do_upd_track ex1 1 2 None))) n KTrack) [1;2;3] = [Some (VZ 1); Some (VZ 1); Some (VZ 1)]) /\
  (has_edge ex0 2 3 = true /\ has_edge (st_of (undo_of (do_add_edge ex0 2 3 []))) 2 3 = false) /\
  (seg (st_of (undo_of (do_upd_seg ex0 2 (1, [2]) false))) = Some [[1;1;0;0]; [2;2;2;0]; [3;0;0;0]]).
Proof. vm_compute. repeat split. Qed.

Print Assumptions C01_obs_eq_equivalence.
Print Assumptions C01_basic_add_edge.
Print Assumptions C01_basic_add_edge_exact.
Print Assumptions C01_basic_del_edge.
Print Assumptions C01_basic_upd_attrs.
Print Assumptions C01_basic_upd_seg.
Print Assumptions C01_basic_add_node.
Print Assumptions C01_basic_add_node_exact.
Print Assumptions C01_basic_del_node.
Print Assumptions C01_basic_upd_track.
Print Assumptions C01_basic_upd_track_exact.
Print Assumptions C01_inverse_reads_core_only.
Print Assumptions C01_user_delete_edge.
Print Assumptions C01_user_add_edge.
Print Assumptions C01_user_update_attrs.
Print Assumptions C01_trk_below_division.
Print Assumptions C01_group.
Print Assumptions C01_timeline_hypotheses.
Print Assumptions C01_history_is_generated.
Print Assumptions C01_user_swap.
Print Assumptions C01_user_delete_node.
Print Assumptions C01_user_add_node.
Print Assumptions C01_consistent_delete_edge.
Print Assumptions C01_consistent_add_edge.
Print Assumptions C01_consistent_swap.
Print Assumptions C01_consistent_delete_node.
Print Assumptions C01_consistent_add_node.
Print Assumptions C01_sessions.
Print Assumptions C01_user_actions_are_generated.
Print Assumptions C01_consistent_paint.
Print Assumptions C01_consistent_update_attrs.
Print Assumptions C01_core_is_generated.
