(* Property C15 - Subset export is closed under ancestors and contains nothing else.
   This file holds only the property theorems (each closed by [exact] of a lemma of
   Proofs/SubsetExportProofs.v), non-vacuity examples, and Print Assumptions.

   Vocabulary (Proofs/SubsetExportProofs.v):
     anc es a b       a non-empty directed path a -> ... -> b exists in the edge list es
                      (= clos_trans of the edge relation, C15_anc_is_transitive_closure)
     well_formed g    both end points of every edge are nodes of g
     in_slice s c d i s <= i < min (s + c) d
     in_range shape idx   0 <= idx_k < shape_k on every axis
   No forest shape, no bound on sizes and no NoDup of the node list is assumed. *)
From Coq Require Import ZArith List Bool Relations.
From FT Require Import Model.SubsetExport Proofs.SubsetExportProofs.
From FT Require Model.PyRt2 Gen.SubsetUtils_gen Proofs.SubsetTie.
From FT Require Proofs.ExportTie.
Import ListNotations.
Open Scope Z_scope.

Theorem C15_anc_is_transitive_closure : forall es a b,
  anc es a b <-> clos_trans Z (fun u v => In (u, v) es) a b.
Proof. exact anc_clos_trans. Qed.

(* (1) The kept set is exactly: the selected nodes and all their ancestors.  This includes
   the completeness of the fuelled upward search (fuel = number of nodes suffices). *)
Theorem C15_closure : forall g sel,
  well_formed g -> incl sel (g_nodes g) ->
  let keep := filter_graph_with_ancestors g sel in
  (forall n, In n keep <-> In n sel \/ exists s, In s sel /\ anc (g_edges g) n s) /\
  NoDup keep /\ incl keep (g_nodes g).
Proof. exact keep_spec. Qed.

(* (2) Closed under parents ... *)
Theorem C15_parent_closed : forall g sel,
  well_formed g -> incl sel (g_nodes g) ->
  let keep := filter_graph_with_ancestors g sel in
  forall u v, In (u, v) (g_edges g) -> In v keep -> In u keep.
Proof. exact keep_parent_closed. Qed.

(* ... hence the graph written by the GEFF export has exactly the kept nodes, exactly the
   edges of the solution among them, and no written node lacks a parent it has in the solution *)
Theorem C15_geff_graph : forall g sel,
  well_formed g -> incl sel (g_nodes g) ->
  let keep := filter_graph_with_ancestors g sel in
  (forall n, In n (geff_nodes g keep) <-> In n keep) /\
  (forall u v, In (u, v) (geff_edges g keep) <-> In (u, v) (g_edges g) /\ In u keep /\ In v keep) /\
  (forall u v, In (u, v) (g_edges g) -> In v (geff_nodes g keep) ->
     In u (geff_nodes g keep) /\ In (u, v) (geff_edges g keep)).
Proof. exact geff_graph_spec. Qed.

(* ... and the CSV export writes one row per kept node; a non-empty parent cell names a parent
   of the node in the solution which has a row of its own; an empty parent cell means the node
   has no parent in the solution; in a forest (in-degree <= 1) the parent cell is the parent. *)
Theorem C15_csv_rows : forall g sel,
  well_formed g -> incl sel (g_nodes g) ->
  let keep := filter_graph_with_ancestors g sel in
  let rows := csv_rows g sel in
  map fst rows = keep /\
  (forall n p, In (n, Some p) rows -> In (p, n) (g_edges g) /\ In p (map fst rows)) /\
  (forall n, In (n, None) rows -> forall u, ~ In (u, n) (g_edges g)) /\
  ((forall u u' v, In (u, v) (g_edges g) -> In (u', v) (g_edges g) -> u = u') ->
     forall n p, In n keep -> In (p, n) (g_edges g) -> In (n, Some p) rows).
Proof. exact csv_rows_spec. Qed.

(* (3) The exported segmentation, pixel by pixel: the label of a kept node stays, everything
   else becomes background.  [seg] is the flat C-order content of an array of shape [shape]
   (all axes non-empty); the chunk loop with the chunk sizes of the code is part of [export_geff]. *)
Theorem C15_seg : forall g sel shape seg,
  well_formed g -> incl sel (g_nodes g) ->
  Forall (fun d => 0 < d) shape -> length seg = Z.to_nat (prodz shape) ->
  let out := snd (export_geff g sel shape seg) in
  length out = length seg /\
  forall k, (k < length seg)%nat ->
    let l := nth k seg 0 in
    ((In l sel \/ exists s, In s sel /\ anc (g_edges g) l s) -> nth k out 0 = l) /\
    (~ (In l sel \/ exists s, In s sel /\ anc (g_edges g) l s) -> nth k out 0 = 0).
Proof. exact export_geff_seg_spec. Qed.

(* the same for any keep list and any positive chunk sizes, as one list equation *)
Theorem C15_seg_any_chunks : forall chunks shape keep seg,
  length chunks = length shape -> Forall (fun c => 0 < c) chunks ->
  Forall (fun d => 0 < d) shape -> length seg = Z.to_nat (prodz shape) ->
  export_seg_with chunks shape keep seg = map (mask_label keep) seg.
Proof. exact export_seg_with_spec. Qed.

(* (4) One axis: the slices [s, min(s+chunk, dim)) for s in range(0, dim, chunk), chunk > 0,
   are listed once, are non-empty, stay inside [0, dim), and every index of [0, dim) lies in
   exactly one of them. *)
Theorem C15_chunks : forall c dim, 0 < c ->
  NoDup (chunk_starts dim c) /\
  (forall s, In s (chunk_starts dim c) -> 0 <= s /\ s < Z.min (s + c) dim /\ Z.min (s + c) dim <= dim) /\
  (forall i, 0 <= i < dim ->
     exists s, In s (chunk_starts dim c) /\ in_slice s c dim i /\
       forall s', In s' (chunk_starts dim c) -> in_slice s' c dim i -> s' = s) /\
  (forall s i, In s (chunk_starts dim c) -> in_slice s c dim i -> 0 <= i < dim).
Proof. exact chunks_tile. Qed.

(* All axes: the blocks of itertools.product are pairwise different and every in-range
   multi-index lies inside exactly one block. *)
Theorem C15_chunks_nd : forall shape chunks idx,
  length chunks = length shape -> Forall (fun c => 0 < c) chunks -> in_range shape idx ->
  NoDup (blocks shape chunks) /\
  exists starts, In starts (blocks shape chunks) /\ inside starts chunks shape idx = true /\
    forall st', In st' (blocks shape chunks) -> inside st' chunks shape idx = true -> st' = starts.
Proof. exact blocks_tile. Qed.

(* ---------------- examples (non-vacuity; what the model computes) ---------------- *)

(* two lineages: 1 -> 2 -> {3, 7} (division at 2), 7 -> 8;  and 20 -> 21 *)
Definition ex_g : graph :=
  ([1; 2; 3; 7; 8; 20; 21], [(1, 2); (2, 3); (2, 7); (7, 8); (20, 21)]).

(* ---- filter_graph_with_ancestors is, for all arguments, the code translated on every run from the current
        import_export/_utils.py (Gen/SubsetUtils_gen.v; translator harness/translate_pure.py +
        translate_utils.py, fail closed).  With a selection inside the graph the Python raises nothing; without
        that hypothesis it either raises NetworkXError or returns the model's answer. ---- *)
Theorem C15_filter_is_generated : forall g sel, incl sel (g_nodes g) ->
  FT.Gen.SubsetUtils_gen.gen_filter_graph_with_ancestors g sel = FT.Model.PyRt2.Ok (filter_graph_with_ancestors g sel).
Proof. exact FT.Proofs.SubsetTie.gen_filter_graph_with_ancestors_eq. Qed.

Theorem C15_filter_is_generated_partial : forall g sel,
  FT.Gen.SubsetUtils_gen.gen_filter_graph_with_ancestors g sel = FT.Model.PyRt2.Raise FT.Model.PyRt2.NetworkXError \/
  FT.Gen.SubsetUtils_gen.gen_filter_graph_with_ancestors g sel = FT.Model.PyRt2.Ok (filter_graph_with_ancestors g sel).
Proof. exact FT.Proofs.SubsetTie.gen_filter_graph_with_ancestors_partial. Qed.

(* ---- the export side of the model is, for all arguments, the code translated on every run from the current csv/_export.py, geff/_export.py, internal_format.py and _feature_dict.py (Gen/ExportPipeline_gen.v; translator harness/translate_export.py, fail closed; combinators Model/PyRt7.v; every file write is an event carrying exactly the value handed to the writer).  The statements are those of the cited theorems of Proofs/ExportTie.v ---- *)
Theorem C15_csv_rows_are_generated : ltac:(let t := type of @FT.Proofs.ExportTie.gen_export_to_csv_subset_rows in exact t).
Proof. exact @FT.Proofs.ExportTie.gen_export_to_csv_subset_rows. Qed.

Theorem C15_csv_empty_selection_is_generated : ltac:(let t := type of @FT.Proofs.ExportTie.gen_export_to_csv_empty_selection in exact t).
Proof. exact @FT.Proofs.ExportTie.gen_export_to_csv_empty_selection. Qed.

Theorem C15_geff_subset_is_generated : ltac:(let t := type of @FT.Proofs.ExportTie.gen_export_to_geff_subset_seg_eq in exact t).
Proof. exact @FT.Proofs.ExportTie.gen_export_to_geff_subset_seg_eq. Qed.

Theorem C15_geff_subset_is_model : ltac:(let t := type of @FT.Proofs.ExportTie.geff_subset_is_model in exact t).
Proof. exact @FT.Proofs.ExportTie.geff_subset_is_model. Qed.


Example C15_ex_well_formed : well_formed ex_g /\ incl [3; 21] (g_nodes ex_g).
Proof.
  split.
  - intros u v H. cbn in H. repeat (destruct H as [H|H]; [injection H as <- <-; cbn; tauto|]). destruct H.
  - intros x H. cbn in *. intuition.
Qed.

(* a leaf below a division: its siblings' branch (7, 8) and the other lineage stay out *)
Example C15_ex_leaf_below_division :
  filter_graph_with_ancestors ex_g [3] = [3; 2; 1] /\
  geff_edges ex_g (filter_graph_with_ancestors ex_g [3]) = [(1, 2); (2, 3)] /\
  csv_rows ex_g [3] = [(3, Some 2); (2, Some 1); (1, None)].
Proof. vm_compute. repeat split. Qed.

(* a root: empty ancestor set *)
Example C15_ex_root :
  filter_graph_with_ancestors ex_g [20] = [20] /\
  geff_edges ex_g [20] = [] /\ csv_rows ex_g [20] = [(20, None)].
Proof. vm_compute. repeat split. Qed.

(* nodes from two lineages, both children of the division *)
Example C15_ex_two_lineages :
  filter_graph_with_ancestors ex_g [8; 3; 21] = [8; 3; 21; 7; 2; 1; 20] /\
  geff_nodes ex_g (filter_graph_with_ancestors ex_g [8; 3; 21]) = [1; 2; 3; 7; 8; 20; 21] /\
  geff_edges ex_g (filter_graph_with_ancestors ex_g [8; 3; 21]) = [(1, 2); (2, 3); (2, 7); (7, 8); (20, 21)].
Proof. vm_compute. repeat split. Qed.

(* the empty selection keeps nothing *)
Example C15_ex_empty : filter_graph_with_ancestors ex_g [] = [] /\ csv_rows ex_g [] = [].
Proof. vm_compute. split; reflexivity. Qed.

(* not a forest: a merge (4 has parents 5 and 6) and a cycle 9 -> 10 -> 9 above 11 *)
Example C15_ex_general_digraph :
  filter_graph_with_ancestors ([4; 5; 6; 9; 10; 11], [(6, 4); (5, 4); (9, 10); (10, 9); (10, 11)]) [4; 11]
    = [4; 11; 6; 5; 10; 9] /\
  parent_of [(6, 4); (5, 4); (9, 10); (10, 9); (10, 11)] 4 = Some 6.
Proof. vm_compute. split; reflexivity. Qed.

(* segmentation of shape (2, 1, 70): labels 3 (kept), 7 (not kept), the pixel at x = 69 lies in
   the second chunk of the last axis (chunk sizes 64, 64, 64) *)
Example C15_ex_chunks :
  chunk_sizes 3 = [64; 64; 64] /\ chunk_sizes 4 = [64; 64; 64; 1] /\
  chunk_starts 70 64 = [0; 64] /\ chunk_starts 128 64 = [0; 64] /\ chunk_starts 3 1 = [0; 1; 2] /\
  blocks [2; 1; 70] [64; 64; 64] = [[0; 0; 0]; [0; 0; 64]] /\
  unravel [2; 1; 70] 139 = [1; 0; 69].
Proof. vm_compute. repeat split. Qed.

Example C15_ex_seg :
  let seg := repeat 0 63 ++ [3; 7; 7; 3; 3; 0; 7] ++ repeat 0 69 ++ [3] in
  length seg = Z.to_nat (prodz [2; 1; 70]) /\
  snd (export_geff ex_g [3] [2; 1; 70] seg) = repeat 0 63 ++ [3; 0; 0; 3; 3; 0; 0] ++ repeat 0 69 ++ [3].
Proof. vm_compute. split; reflexivity. Qed.

Print Assumptions C15_anc_is_transitive_closure.
Print Assumptions C15_closure.
Print Assumptions C15_parent_closed.
Print Assumptions C15_geff_graph.
Print Assumptions C15_csv_rows.
Print Assumptions C15_seg.
Print Assumptions C15_seg_any_chunks.
Print Assumptions C15_chunks.
Print Assumptions C15_chunks_nd.
Print Assumptions C15_filter_is_generated.
Print Assumptions C15_filter_is_generated_partial.
Print Assumptions C15_csv_rows_are_generated.
Print Assumptions C15_csv_empty_selection_is_generated.
Print Assumptions C15_geff_subset_is_generated.
Print Assumptions C15_geff_subset_is_model.
